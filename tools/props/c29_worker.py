"""C29 worker: one process = one history on the (process-global) closure allocator of the scratch
backend.  Creates / drops / calls real ffi.callback objects; reports raw addresses and, for every
call, which Python function actually ran (decoded from the result) and whether the value is exact."""
import gc
import os
import struct
import subprocess
import sys

import cffi
from lib.vlib import worker_main

ROOT = os.environ["VERIF_ROOT"]
WORK = os.environ["VERIF_WORK"]

ffi = cffi.FFI()
ffi.cdef("""
    int c29_call_i(int (*f)(int), int x);
    long long c29_call_l(long long (*f)(int, long long), int a, long long b);
    double c29_call_d(double (*f)(double), double x);
    int c29_call_raw32(int (*f)(unsigned int), unsigned int raw);
    int c29_call_raw8(int (*f)(unsigned char), unsigned char raw);
    long c29_sizeof_closure(void);
    long c29_pagesize(void);
""")
SIGS = ["int(int)", "long long(int, long long)", "double(double)", "int(char32_t)", "int(wchar_t)", "int(_Bool)",
        "int(int)", "int(int)"]        # 6: with error=-(1000+fid); 7: with that error value and an onerror handler
BAD_RAW = {3: [0x110000, 0xFFFFFFFF, 0x7FFFFFFF], 4: [0x110000, 0xFFFFFFFF, 0x80000000], 5: [2, 255, 128]}


def helper():
    so = os.path.join(WORK, "c29_helper_%d.so" % os.getpid())
    subprocess.check_call(["gcc", "-w", "-shared", "-fPIC", "-O1", "-I/usr/include/ffi", "-o", so,
                           os.path.join(ROOT, "tools", "props", "c", "c29_helper.c")])
    lib = ffi.dlopen(so)
    os.unlink(so)
    return lib


LIVE = {}            # h -> (cb, sig, cyclic): the ONLY references to the callbacks
CTRL = dict(fid=None)
JUNK = struct.pack("i", -777)


class SelfDrop(Exception):
    pass


def on_error(exc, val, tb):
    CTRL["onerror"] = CTRL.get("onerror", 0) + 1


def cb_kwargs(fid, sig):
    if sig == 6:
        return dict(error=-(1000 + fid))
    if sig == 7:
        return dict(error=-(1000 + fid), onerror=on_error)
    return {}


def selfdrop(fid, x):
    """runs INSIDE the callback fid: drops the callback itself (its last reference), collects, optionally creates
    a new callback (which takes over the closure just freed), allocates 4-tuples, then returns or raises"""
    c = dict(CTRL)
    CTRL["fid"] = None
    CTRL["ran"] = fid
    ent = LIVE.pop(c["h"])
    del ent
    gc.collect()                       # frees it now when it sits in a reference cycle (tp_clear, then dealloc)
    if c["new"] is not None:
        h2, fid2, sig2 = c["new"]
        cb2 = ffi.callback(SIGS[sig2], make_fn(fid2, sig2, None), **cb_kwargs(fid2, sig2))
        LIVE[h2] = (cb2, sig2, False)
        CTRL["new_addr"] = int(ffi.cast("uintptr_t", cb2))
        del cb2
    none = None
    CTRL["junk"] = [(x, fid, JUNK, none) for _ in range(8)]
    if c["mode"] == "raise":
        raise SelfDrop()
    return fid * 7919 + x


def make_fn(fid, sig, holder):
    if sig in (0, 6, 7):
        def fn(x, fid=fid, holder=holder):
            if CTRL["fid"] == fid:
                return selfdrop(fid, x)
            return fid * 7919 + x
    elif sig == 1:
        def fn(a, b, fid=fid, holder=holder):
            return fid * 1000003 + a * 31 + b
    elif sig == 2:
        def fn(x, fid=fid, holder=holder):
            return fid + x / 4.0
    else:
        def fn(x, fid=fid, holder=holder):          # x: a 1-character str, or a bool
            return fid * 7919 + (ord(x) if isinstance(x, str) else int(x))
    return fn


def invoke(lib, cb, sig, x, route):
    """-> (fid that ran, exact?)"""
    if sig in (6, 7):
        sig = 0
    if sig == 0:
        if route == "c":
            r = lib.c29_call_i(cb, x)
        elif route == "cast":
            r = ffi.cast("int(*)(int)", ffi.cast("void *", cb))(x)
        else:
            r = cb(x)
        fid = (r - x) // 7919
        return fid, r == fid * 7919 + x
    if sig == 1:
        a, b = x, x * 65537 + 3
        if route == "c":
            r = lib.c29_call_l(cb, a, b)
        elif route == "cast":
            r = ffi.cast("long long(*)(int, long long)", ffi.cast("void *", cb))(a, b)
        else:
            r = cb(a, b)
        fid = (r - a * 31 - b) // 1000003
        return fid, r == fid * 1000003 + a * 31 + b
    if sig >= 3:
        raw = (x % 2) if sig == 5 else 65 + x % 26
        if route == "c":
            if sig == 5:
                r = lib.c29_call_raw8(ffi.cast("int(*)(unsigned char)", cb), raw)
            else:
                r = lib.c29_call_raw32(ffi.cast("int(*)(unsigned int)", cb), raw)
        else:
            r = cb(bool(raw) if sig == 5 else chr(raw))
        fid = (r - raw) // 7919
        return fid, r == fid * 7919 + raw
    xf = float(x)
    if route == "c":
        r = lib.c29_call_d(cb, xf)
    elif route == "cast":
        r = ffi.cast("double(*)(double)", ffi.cast("void *", cb))(xf)
    else:
        r = cb(xf)
    fid = int(r - xf / 4.0)
    return fid, r == fid + xf / 4.0


def rwx_regions():
    """writable+executable (or, under PaX emutramp, writable) mappings of this process, merged"""
    regs = []
    with open("/proc/self/maps") as f:
        for line in f:
            parts = line.split()
            lo, hi = (int(x, 16) for x in parts[0].split("-"))
            regs.append((lo, hi, parts[1]))
    want = [(lo, hi) for lo, hi, perms in regs if "w" in perms and "x" in perms]
    if not want:
        want = [(lo, hi) for lo, hi, perms in regs if "w" in perms]
    want.sort()
    merged = []
    for lo, hi in want:
        if merged and merged[-1][1] == lo:
            merged[-1][1] = hi
        else:
            merged.append([lo, hi])
    return merged


def run_bulk(payload, lib, geom):
    """keep payload['bulk'] callbacks alive at once; addresses distinct, inside rwx mappings, a sample called"""
    import bisect
    import random
    n = payload["bulk"]
    rng = random.Random(payload.get("seed", 0))
    cbs, addrs = [], []
    for i in range(n):
        cb = ffi.callback("int(int)", make_fn(i + 1, 0, None))
        cbs.append(cb)
        addrs.append(int(ffi.cast("uintptr_t", cb)))
        if (i + 1) % 500 == 0:
            sys.stderr.write("BULK %d\n" % (i + 1))
            sys.stderr.flush()
    bs = geom["blocksize"]
    regs = rwx_regions()
    los = [r[0] for r in regs]
    outside = []
    for i, a in enumerate(addrs):
        k = bisect.bisect_right(los, a) - 1
        if k < 0 or a + bs > regs[k][1]:
            outside.append([i, a])
            if len(outside) >= 5:
                break
    breaks = [i + 1 for i in range(n - 1) if addrs[i] - addrs[i + 1] != bs]
    # sample: around every block boundary, the first/last, and random ones
    idx = set([0, n - 1])
    for b in breaks:
        idx.update(x for x in (b - 2, b - 1, b, b + 1) if 0 <= x < n)
    idx.update(rng.randrange(n) for _ in range(payload.get("sample", 300)))
    wrong = []
    for i in sorted(idx):
        sys.stderr.write("CALL %d\n" % i)
        for route in ("cdata", "c"):
            fid, exact = invoke(lib, cbs[i], 0, i % 1000, route)
            if fid != i + 1 or not exact:
                wrong.append([i, route, fid])
    sys.stderr.flush()
    return dict(bulk=n, distinct=len(set(addrs)), outside=outside, breaks=breaks, wrong=wrong[:5],
                called=len(idx), geom=geom)


def main(payload):
    gc.disable()
    lib = helper()
    geom = dict(blocksize=int(lib.c29_sizeof_closure()), pagesize=int(lib.c29_pagesize()))
    if "bulk" in payload:
        return run_bulk(payload, lib, geom)
    live = LIVE        # h -> (cb, sig, cyclic)
    outs = []
    for op in payload["ops"]:
        n_before = len(outs)
        try:
            k = op[0]
            if k == "create":
                _, h, fid, sig, cyc = op
                holder = [] if cyc else None
                try:
                    cb = ffi.callback(SIGS[sig], make_fn(fid, sig, holder), **cb_kwargs(fid, sig))
                except Exception as e:         # (MemoryError: the allocator is exhausted; anything else is reported too)
                    outs.append(["err", type(e).__name__])
                    continue
                if cyc:
                    holder.append(cb)          # function -> holder -> callback -> infotuple -> function
                live[h] = (cb, sig, cyc)
                outs.append(["addr", int(ffi.cast("uintptr_t", cb))])
                del cb, holder                 # no stray reference from this frame
            elif k == "fail":
                try:
                    ffi.callback("int(int, ...)", lambda *a: 0)
                    outs.append(["other", "created"])
                except NotImplementedError:
                    outs.append(["err", "NotImplementedError"])
            elif k == "drop":
                cb, sig, cyc = live.pop(op[1])
                del cb
                if cyc:
                    gc.collect()
                outs.append(["none"])
            elif k == "badcall":
                # from C, with an argument convert_to_object rejects: the Python function must not run and the C
                # caller gets the error value (0)
                _, h, which = op
                cb, sig, cyc = live[h]
                raw = BAD_RAW[sig][which % 3]
                try:
                    if sig == 5:
                        r = lib.c29_call_raw8(ffi.cast("int(*)(unsigned char)", cb), raw)
                    else:
                        r = lib.c29_call_raw32(ffi.cast("int(*)(unsigned int)", cb), raw)
                    outs.append(["errval", r])
                except Exception as e:
                    outs.append(["err", type(e).__name__])
                del cb
            elif k == "selfdrop":
                # the callback is entered FROM C through its bare address (no cdata reference on any stack) and drops
                # itself while it runs
                _, h, x, mode, route, new, fid = op
                cb, sig, cyc = live[h]
                addr = int(ffi.cast("uintptr_t", cb))
                del cb
                CTRL.update(fid=fid, h=h, mode=mode, new=new, ran=-1, new_addr=0)
                sys.stderr.flush()
                try:
                    fp = ffi.cast("int(*)(int)", addr)
                    r = lib.c29_call_i(fp, x) if route == "c" else fp(x)
                    outs.append(["selfdrop", CTRL["ran"], r, CTRL["new_addr"], h in live])
                except Exception as e:
                    outs.append(["err", type(e).__name__])
                CTRL["fid"] = None
                CTRL["junk"] = None
            elif k == "call":
                _, h, x, route = op
                cb, sig, cyc = live[h]
                try:
                    fid, exact = invoke(lib, cb, sig, x, route)
                    outs.append(["fn", fid, exact])
                except Exception as e:
                    outs.append(["err", type(e).__name__])
                del cb
            else:
                raise ValueError(k)
        except Exception as e:         # (a handle the diverged implementation never created, a corrupted object, ...)
            if len(outs) == n_before:
                outs.append(["err", type(e).__name__])
        if len(outs) % 500 == 0:
            sys.stderr.write("OP %d\n" % len(outs))
            sys.stderr.flush()
    return dict(outs=outs, geom=geom)


worker_main(main)
