"""C20 API-mode worker.  mode=build: compile one small out-of-line API module whose structs end in flexible arrays
(their field lists are loaded lazily).  mode=probe: in THIS fresh process, the probe is the very first operation that
touches the struct type, through the compiled module (lazy fields) or through an in-line FFI (eager fields)."""
import importlib
import os
import sys

import cffi
from lib.vlib import worker_main

CDEF = """
struct V { int n; int a[]; };
struct X { int k; struct V v; };
struct W { struct V arr[2]; int tail; };
struct C { char tag; char s[]; };
"""
MOD = "_c20_api_mod"


def run_probe(ffi, code):
    env = dict(ffi=ffi)
    try:
        exec(code, env)
        return dict(bytes=bytes(ffi.buffer(env["p"])).hex())
    except Exception as e:
        return dict(error=type(e).__name__)


def main(payload):
    work = os.environ["VERIF_WORK"]
    if payload["mode"] == "build":
        ffi = cffi.FFI()
        ffi.cdef(CDEF)
        ffi.set_source(MOD, CDEF)
        ffi.compile(tmpdir=work)
        return dict(ok=True)
    if payload["flavour"] == "api":
        sys.path.insert(0, work)
        ffi = importlib.import_module(MOD).ffi
    else:
        ffi = cffi.FFI()
        ffi.cdef(CDEF)
    return run_probe(ffi, payload["code"])


worker_main(main)
