"""C28 worker: builds two embedded libraries (as /repo/testing/embedding does) and the driver, then
runs the requested scenarios; returns the event logs."""
import os
import subprocess
import sys
import sysconfig

from lib.vlib import worker_main

INIT_CODE = r'''
import os, sys, time
import cffi as _cffi
from _c28lib%(K)d_cffi import ffi
_f = _cffi.FFI()
_f.cdef("void c28_event(const char *); void c28_wait(int); void c28_post(int); int f0(int); int f1(int);")
drv = _f.dlopen(None)
mode = os.environ.get("C28_MODE%(K)d", "ok").split("+")
drv.c28_event(b"INIT_START %(K)d")
if "sync" in mode:
    drv.c28_post(2 * %(K)d + 1)
    drv.c28_wait(2 * %(K)d + 2)
if "pre" in mode:
    drv.c28_event(b"PRE %(K)d %%d" %% drv.f%(K)d(7))
@ffi.def_extern()
def f%(K)d(x):
    drv.c28_event(b"EXT %(K)d")
    return x + 100 * (%(K)d + 1)
if "post" in mode:
    drv.c28_event(b"POST %(K)d %%d" %% drv.f%(K)d(7))
if "sync2" in mode:
    drv.c28_post(9 + 2 * %(K)d)
    drv.c28_wait(10 + 2 * %(K)d)
if "cross" in mode:
    drv.c28_event(b"CROSS %(K)d %%d" %% drv.f%(O)d(9))
if "sleep" in mode:
    time.sleep(0.15)
if "fail" in mode:
    drv.c28_event(b"INIT_FAIL %(K)d")
    raise RuntimeError("C28: requested init failure")
drv.c28_event(b"INIT_DONE %(K)d")
'''


def build(work):
    import cffi
    libs = []
    for k in (0, 1):
        ffi = cffi.FFI()
        ffi.embedding_api("int f%d(int);" % k)
        ffi.embedding_init_code(INIT_CODE % dict(K=k, O=1 - k))
        ffi.set_source("_c28lib%d_cffi" % k, "")
        libs.append(ffi.compile(tmpdir=work, verbose=False))
    src = os.path.join(os.environ["VERIF_ROOT"], "tools", "props", "c", "c28_driver.c")
    exe = os.path.join(work, "c28_driver")
    cmd = ["gcc", "-O1", "-g", "-pthread", "-rdynamic", "-o", exe, src] + libs + \
          ["-ldl", "-Wl,-rpath," + work]
    p = subprocess.run(cmd, capture_output=True, text=True)
    if p.returncode:
        raise RuntimeError("driver does not build: " + p.stderr[-1500:])
    return exe


def main(payload):
    import time
    work = os.environ["VERIF_WORK"]
    t0 = time.time()
    exe = build(work)
    build_s = time.time() - t0
    libdir = sysconfig.get_config_var("LIBDIR")
    out = []
    for sc in payload["scenarios"]:
        env = dict(os.environ)
        env["LD_LIBRARY_PATH"] = libdir + os.pathsep + work + os.pathsep + env.get("LD_LIBRARY_PATH", "")
        import pycparser
        env["PYTHONPATH"] = os.pathsep.join([os.environ["PYTHONPATH"], work,
                                             os.path.dirname(os.path.dirname(pycparser.__file__))])
        env["C28_MODE0"] = sc.get("mode0", "ok")
        env["C28_MODE1"] = sc.get("mode1", "ok")
        env["C28_WATCHDOG"] = str(sc.get("watchdog", 20))
        try:
            p = subprocess.run([exe, sc["main"]] + sc["threads"], env=env, capture_output=True, text=True,
                               timeout=sc.get("watchdog", 20) + 30, cwd=work)
            events = [l[3:].split(" ", 1) for l in p.stdout.splitlines() if l.startswith("EV ")]
            out.append(dict(rc=p.returncode, events=[[int(a), b] for a, b in events], stderr=p.stderr[-1500:]))
        except subprocess.TimeoutExpired:
            out.append(dict(rc=None, events=[], stderr="driver itself hung"))
    return dict(results=out, build_s=build_s)


if __name__ == "__main__":
    worker_main(main)
