"""C32 worker: real ffiplatform.flatten and Verifier(...).get_module_name() from the scratch copy.
Values arrive as tagged JSON: {"s": str} {"i": int} {"b": bool} {"l": [...]} {"t": [...]} {"d": [[key, v], ...]}
{"o": tag} (an unsupported object).  The bytes handed to binascii.crc32 are captured to recover the hashed key."""
import os
import sys

import cffi
from cffi import ffiplatform, verifier
from lib.vlib import worker_main

assert os.path.dirname(cffi.__file__).startswith(os.environ["VERIF_SCRATCH"]), cffi.__file__

OTHER = {0: 1.5, 1: None, 2: b"bytes", 3: {1, 2}, 4: object}


def to_py(v):
    (k, x), = v.items()
    if k == "s":
        return x
    if k == "i":
        return int(x)
    if k == "b":
        return bool(x)
    if k == "l":
        return [to_py(e) for e in x]
    if k == "t":
        return tuple(to_py(e) for e in x)
    if k == "d":
        return {key: to_py(e) for key, e in x}
    if k == "o":
        return OTHER[x]
    raise ValueError(k)


def exc_class(e):
    for c in (UnicodeEncodeError, TypeError, ValueError, KeyError):
        if isinstance(e, c):
            return "ValueError" if c is UnicodeEncodeError else c.__name__
    return type(e).__name__


class Capture:
    def __init__(self):
        self.calls = []
        self.real = verifier.binascii.crc32

    def __call__(self, data, *a):
        self.calls.append(bytes(data))
        return self.real(data, *a)


class FakeBinascii:
    def __init__(self, cap):
        self.crc32 = cap


def module_name(inp, order):
    """inp: dict(sources, preamble, kwds=[[k, v]...], tag, generic); order: permutation of kwds indices"""
    import warnings

    def build(items):
        f = cffi.FFI()
        for it in items:
            if isinstance(it, dict):
                f.include(build(it["inc"]))
            else:
                f.cdef(it)
        return f
    with warnings.catch_warnings():
        warnings.simplefilter("ignore")
        try:
            ffi = build(inp["tree"] if "tree" in inp else inp["sources"])
        except Exception as e:
            return dict(exc="cdef:" + exc_class(e))
    kw = {}
    for i in order:
        k, v = inp["kwds"][i]
        kw[k] = to_py(v)
    cap = Capture()
    old = verifier.binascii
    verifier.binascii = FakeBinascii(cap)
    try:
        try:
            v = verifier.Verifier(ffi, inp["preamble"], tmpdir=os.environ["VERIF_WORK"], tag=inp.get("tag", ""),
                                  force_generic_engine=bool(inp.get("generic")), **kw)
        except Exception as e:
            return dict(exc=exc_class(e))
    finally:
        verifier.binascii = old
    # debug build of CPython: get_module_name tests hasattr(sys, 'gettotalrefcount')
    fake_debug = bool(inp.get("debug")) and not hasattr(sys, "gettotalrefcount")
    if fake_debug:
        sys.gettotalrefcount = lambda: 0
    try:
        observed = v.get_module_name()
    finally:
        if fake_debug:
            del sys.gettotalrefcount
    out = dict(name=observed, cdefsources=list(ffi._cdefsources), class_key=v._vengine._class_key,
               tmpdir=v.tmpdir, suffix=verifier._get_so_suffixes()[0], modulefilename=v.modulefilename)
    if len(cap.calls) == 2:
        ev, od = cap.calls
        key = bytearray(len(ev) + len(od))
        key[0::2] = ev
        key[1::2] = od
        out["key"] = bytes(key).hex()
        out["crc"] = [cap.real(ev) & 0xffffffff, cap.real(od) & 0xffffffff]
    return out


def main(payload):
    results = []
    for c in payload["cases"]:
        kind = c["kind"]
        if kind == "flatten":
            try:
                results.append(dict(text=[ord(ch) for ch in ffiplatform.flatten(to_py(c["value"]))]))
            except Exception as e:
                results.append(dict(exc=exc_class(e)))
        elif kind == "name":
            runs = [module_name(c["input"], order) for order in c["orders"]]
            runs.append(module_name(c["input"], c["orders"][0]))       # repeated call, same process
            results.append(dict(runs=runs))
        elif kind == "fmt":
            # the real name formatting of Verifier.__init__ for chosen CRC values (crc32 replaced by constants)
            names = []
            for c1, c2 in c["pairs"]:
                seq = [c1, c2]

                class Fixed:
                    @staticmethod
                    def crc32(data, *a):
                        return seq.pop(0)
                old = verifier.binascii
                verifier.binascii = Fixed
                try:
                    ffi = cffi.FFI()
                    v = verifier.Verifier(ffi, "", tmpdir=os.environ["VERIF_WORK"])
                    names.append(v.get_module_name())
                except Exception as e:
                    names.append("!" + exc_class(e))
                finally:
                    verifier.binascii = old
            results.append(dict(names=names))
        elif kind == "pair":
            results.append(dict(a=module_name(c["a"], range(len(c["a"]["kwds"]))),
                                b=module_name(c["b"], range(len(c["b"]["kwds"])))))
    import platform
    return dict(results=results, version="%d.%d" % sys.version_info[:2],
                vvm=cffi.__version_verifier_modules__)


if __name__ == "__main__":
    worker_main(main)
