"""C31 worker (runs against the scratch copy of cffi).

op=regex: texts through the real regular expressions / _preprocess / _common_type_names of cffi.cparser
op=meta : base and variant cdef through the real parser; summaries compared
"""
import os
import warnings

warnings.simplefilter("ignore")

import cffi
from cffi import cparser, model
from lib.vlib import worker_main


# ------------------------------------------------------------------ regex level

def do_regex(cases):
    res = []
    for c in cases:
        t = c["text"]
        if c["kind"] == "comment":
            # the replacement function is local to _preprocess; this is its text (cparser.py:195)
            res.append(cparser._r_comment.sub(lambda m: ' ' + m.group().count('\n') * '\n', t))
        elif c["kind"] == "words":
            res.append(cparser._r_words.findall(t))
        elif c["kind"] == "ctn":
            res.append(sorted(cparser._common_type_names(t)))
        else:
            try:
                out, macros = cparser._preprocess(t)
                res.append(dict(exc=None, text=out, macros=[[k, v] for k, v in macros.items()]))
            except Exception as e:
                res.append(dict(exc=type(e).__name__, text="", macros=[]))
    return res


# ------------------------------------------------------------------ cdef summaries

def tname(tp):
    try:
        return tp.get_c_name()
    except Exception as e:
        return "<%s:%s>" % (type(tp).__name__, type(e).__name__)


def describe(tp):
    if isinstance(tp, (int, str)):
        return ["value", tp]
    d = [type(tp).__name__, tname(tp)]
    if isinstance(tp, model.StructOrUnion):
        d.append(dict(fldnames=list(tp.fldnames) if tp.fldnames is not None else None,
                      fldtypes=[[type(t).__name__, tname(t)] for t in tp.fldtypes] if tp.fldtypes is not None else None,
                      fldbitsize=list(tp.fldbitsize) if tp.fldbitsize is not None else None,
                      fldquals=list(tp.fldquals) if tp.fldquals is not None else None,
                      partial=bool(tp.partial), packed=tp.packed, forcename=tp.forcename))
    elif isinstance(tp, model.EnumType):
        d.append(dict(enumerators=list(tp.enumerators), enumvalues=list(tp.enumvalues), partial=bool(tp.partial)))
    return d


def emitted(ffi, how, tag):
    path = os.path.join(os.environ["VERIF_WORK"], "c31_emit_%s" % tag)
    try:
        if how == "py":
            ffi.set_source("_c31_mod", None)
            ffi.emit_python_code(path)
        else:
            ffi.set_source("_c31_mod", "/* nothing */")
            ffi.emit_c_code(path)
        with open(path) as f:
            return f.read()
    except Exception as e:
        return "EXC " + type(e).__name__
    finally:
        try:
            os.unlink(path)
        except OSError:
            pass


def summary(src):
    out = {}
    try:
        ffi = cffi.FFI()
        ffi.cdef(src)
    except Exception as e:
        return dict(outcome="EXC " + type(e).__name__, msg=str(e)[:200])
    out["outcome"] = "ok"
    decls = ffi._parser._declarations
    out["decl_order"] = list(decls)
    out["decls"] = {k: [describe(v[0]), v[1]] for k, v in decls.items()}
    out["int_constants"] = dict(ffi._parser._int_constants)
    # in-line ABI facts
    facts = {}
    try:
        tds, sts, uns = ffi.list_types()
    except Exception as e:
        tds, sts, uns = [], [], []
        facts["list_types"] = "EXC " + type(e).__name__
    for nm in list(tds) + ["struct " + n for n in sts] + ["union " + n for n in uns]:
        try:
            ct = ffi.typeof(nm)
            f = [ct.cname, ct.kind]
            try:
                f += [ffi.sizeof(ct), ffi.alignof(ct)]
            except Exception as e:
                f.append("EXC " + type(e).__name__)
            if ct.kind in ("struct", "union") and ct.fields is not None:
                f.append([[n, fl.offset, fl.bitshift, fl.bitsize, fl.type.cname] for n, fl in ct.fields])
            if ct.kind == "enum":
                f.append(sorted(ct.relements.items()))
            facts[nm] = f
        except Exception as e:
            facts[nm] = "EXC " + type(e).__name__
    for nm in ffi._parser._int_constants:
        try:
            facts["const " + nm] = ffi.integer_const(nm)
        except Exception as e:
            facts["const " + nm] = "EXC " + type(e).__name__
    out["abi_facts"] = facts
    # two fresh FFIs for the two emitters (set_source can be called once)
    for how in ("py", "c"):
        f2 = cffi.FFI()
        f2.cdef(src)
        out["emit_" + how] = emitted(f2, how, how)
    return out


def first_diff(a, b):
    if a.get("outcome") != b.get("outcome"):
        return "outcome: base %s / variant %s %s" % (a.get("outcome"), b.get("outcome"), b.get("msg", a.get("msg", ""))[:160])
    for k in a:
        if k == "msg":
            continue
        if a[k] != b.get(k):
            if isinstance(a[k], dict) and isinstance(b.get(k), dict):
                for kk in sorted(set(a[k]) | set(b[k])):
                    if a[k].get(kk) != b[k].get(kk):
                        return "%s[%s]: base %r / variant %r" % (k, kk, a[k].get(kk), b[k].get(kk))
            if isinstance(a[k], str):
                la, lb = a[k].splitlines(), b[k].splitlines()
                for i, (x, y) in enumerate(zip(la, lb)):
                    if x != y:
                        return "%s line %d: base %r / variant %r" % (k, i + 1, x[:120], y[:120])
                return "%s: lengths differ" % k
            return "%s: base %r / variant %r" % (k, str(a[k])[:150], str(b.get(k))[:150])
    return None


def do_meta(cases):
    res = []
    for c in cases:
        a = summary(c["base"])
        b = summary(c["variant"])
        res.append(dict(base_outcome=a["outcome"], diff=first_diff(a, b)))
    return res


def main(payload):
    if payload["op"] == "regex":
        from cffi.commontypes import COMMON_TYPES
        return dict(results=do_regex(payload["cases"]), common=sorted(COMMON_TYPES))
    return dict(results=do_meta(payload["cases"]))


worker_main(main)
