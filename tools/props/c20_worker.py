"""C20 worker (runs against the scratch build of cffi, optionally the ASan build): declare the types of a
case, read their layout, then run   p = ffi.new(T, init)   and   q = <zero block>; q[0] = init   and report
the bytes / ffi.sizeof / exception class of each."""
import sys
import warnings

import cffi
from lib.vlib import worker_main

PRELUDE = "struct c20_other { int x; };\ntypedef int (*fnptr_t)(int, char *);\n"


def build(ffi, keep, v):
    if "i" in v:
        return v["i"]
    if "f" in v:
        return v["f"]
    if "b" in v:
        return bytes.fromhex(v["b"])
    if "s" in v:
        return "".join(chr(c) for c in v["s"])
    if "l" in v:
        items = [build(ffi, keep, x) for x in v["l"]]
        return tuple(items) if v.get("tuple") else items
    if "d" in v:
        return {k: build(ffi, keep, x) for k, x in v["d"]}
    if "cd" in v:
        if not v["same"]:
            o = ffi.new("struct c20_other *")
            keep.append(o)
            return o[0]
        if v["T"].endswith("]"):
            o = ffi.new(v["T"])
            ffi.buffer(o)[:] = bytes.fromhex(v["cd"])
            keep.append(o)
            return o
        o = ffi.new(v["T"] + " *")
        ffi.buffer(o)[:] = bytes.fromhex(v["cd"])
        keep.append(o)
        return o[0]
    if "p" in v:
        return ffi.cast("void *", v["p"])
    return None


def one_case(case):
    ffi = cffi.FFI()
    ffi.cdef(PRELUDE)
    res = dict(layout={}, new=None, assign=None)
    for d in case["decls"]:
        if d["pack"] == 0:
            ffi.cdef(d["src"])
        else:
            ffi.cdef(d["src"], pack=d["pack"])
    for tag, T in case["tags"]:
        t = ffi.typeof(T)
        res["layout"][tag] = dict(size=ffi.sizeof(t),
                                  fields=[(n, f.offset, f.bitshift, f.bitsize, f.flags) for n, f in t.fields])
    keep = []
    init = build(ffi, keep, case["init"])
    newT = case["newT"]
    # ---- ffi.new(T, init)
    try:
        p = ffi.new(newT, init)
        b = bytes(ffi.buffer(p))
        if not case["isptr"]:
            sz = ffi.sizeof(p)
        elif ffi.typeof(p).item.kind in ("struct", "union"):
            sz = ffi.sizeof(p[0])
        else:
            sz = ffi.sizeof(ffi.typeof(p).item)
        res["new"] = dict(bytes=b.hex(), sizeof=sz)
        if case.get("flexlen") is not None:
            # the flexible array of the top-level struct, as cffi exposes it afterwards
            res["new"]["flexlen"] = len(getattr(p, case["flexlen"]))
    except Exception as e:
        res["new"] = dict(error=type(e).__name__)
    # ---- the same initializer given by field name (sequence initializers fill the leading fields in order;
    #      a union sequence sets the first member)
    if case.get("named_init") is not None:
        try:
            p2 = ffi.new(newT, build(ffi, keep, case["named_init"]))
            res["named"] = dict(bytes=bytes(ffi.buffer(p2)).hex())
        except Exception as e:
            res["named"] = dict(error=type(e).__name__)
    # ---- assignment form
    a = case.get("assign")
    if a:
        try:
            if a["form"] == "literal":
                q = ffi.new(a["T"])
                q[0] = init
                res["assign"] = dict(bytes=bytes(ffi.buffer(q)).hex())
            elif "bytes" in res["new"]:
                size = len(res["new"]["bytes"]) // 2
                raw = ffi.new("char[]", max(size, 1))
                q = ffi.cast(a["T"], raw)
                q[0] = init
                res["assign"] = dict(bytes=bytes(ffi.buffer(raw))[:size].hex())
        except Exception as e:
            res["assign"] = dict(error=type(e).__name__)
    return res


def main(payload):
    warnings.simplefilter("ignore")
    out = []
    for case in payload["cases"]:
        try:
            out.append(one_case(case))
        except Exception as e:
            out.append(dict(harness_error="%s: %s" % (type(e).__name__, e)))
        if True:
            sys.stderr.write("done %d\n" % len(out))
            sys.stderr.flush()
    return dict(results=out)


worker_main(main)
