"""C10 — enum values and underlying integer type match the C compiler.  (regen part; harness below)"""
import os
import subprocess

from lib import vlib, py2coq
from lib.vlib import cz, clist, copt, cpair, cstr, cbool
from props import c10_regen as R

ID = "C10"
GEN = os.path.join(vlib.COQ, "C10", "Gen.v")


def regen(ctx):
    try:
        st = py2coq.write_if_changed(GEN, R.render(vlib.REPO))
        ctx.translator("C10/Gen.v", st)
    except (py2coq.Untranslatable, OSError, SyntaxError) as e:
        ctx.translator("C10/Gen.v", "fallback: %s" % e)


# --------------------------------------------------------------------------- generator

I31, I32, I63, I64 = 1 << 31, 1 << 32, 1 << 63, 1 << 64
BOUNDARY = [0, 1, -1, 2, 127, 128, 255, 256, -128, -129, 32767, 65535, 65536,
            I31 - 1, I31, I31 + 1, I32 - 1, I32, I32 + 1, -I31, -I31 - 1, -I31 + 1,
            I63 - 1, I63, I63 + 1, I64 - 1, -I63, -I63 + 1, -I32, -I32 - 1]


def literal(rng, v):
    """a C spelling of the integer v that means v for gcc (C11 6.4.4.1) and is within cffi's constant syntax"""
    if v == -I63:
        return "(-9223372036854775807-1)"
    if v < 0:
        if -v < I31 and rng.random() < 0.3:
            return "-0x%x" % -v
        return "-%d" % -v
    k = rng.random()
    if v >= I63:
        return ("0x%x" % v) if k < 0.5 else ("%dULL" % v)
    if k < 0.55:
        return "%d" % v
    if k < 0.8:
        return "0x%X" % v
    if k < 0.85 and v < 4096:
        return "0%o" % v
    if k < 0.9 and 32 < v < 127 and chr(v) not in "'\\":
        return "'%s'" % chr(v)
    return "%d%s" % (v, rng.choice(["u", "U", "l", "L", "ul", "LL", "ull"])) if v < I31 else "%d" % v


def gen_enum(rng, uid):
    n = rng.choice([1, 1, 2, 2, 3, 3, 4, 5, 6, 8])
    style = rng.choice(["small", "boundary", "boundary", "mixed", "dups", "implicit"])
    items, vals = [], []
    nxt = 0
    for i in range(n):
        name = "c%d_%s%d" % (uid, "".join(rng.choice("abcdefgh") for _ in range(2)), i)
        k = rng.random()
        if style == "implicit":
            explicit = i == 0 and k < 0.7 or k < 0.2
        elif style == "dups":
            explicit = k < 0.7
        else:
            explicit = k < 0.6
        if not explicit:
            items.append([name, None, None])
            vals.append(nxt)
            nxt += 1
            continue
        if style == "small":
            v = rng.randrange(-20, 40)
        elif style == "dups" and vals and rng.random() < 0.7:
            v = rng.choice(vals)
        elif style == "mixed":
            v = rng.choice(BOUNDARY) if rng.random() < 0.5 else rng.randrange(-300, 300)
        elif style == "implicit":
            v = rng.choice(BOUNDARY + [I31 - 3, I32 - 3, -3, I63 - 3])
        else:
            v = rng.choice(BOUNDARY) + rng.choice([0, 0, 0, 1, -1])
            v = max(-I63, min(I64 - 1, v))
        # reference to an earlier enumerator (kept where C and Python integer arithmetic agree: |value| < 2^30)
        refs = [(m, w) for (m, _e, _x), w in zip(items, vals) if abs(w) < (1 << 30)]
        if refs and rng.random() < 0.2:
            m, w = rng.choice(refs)
            form = rng.choice(["%s", "%s + 1", "%s - 1", "%s + 0", "-%s", "%s | 1", "%s * 2"])
            v = {"%s": w, "%s + 1": w + 1, "%s - 1": w - 1, "%s + 0": w, "-%s": -w, "%s | 1": w | 1,
                 "%s * 2": w * 2}[form]
            expr = form % m
        else:
            expr = literal(rng, v)
        items.append([name, expr, str(v)])
        vals.append(v)
        nxt = v + 1
    qs = set(vals)
    for v in list(vals)[:4]:
        qs.update([v + 1, v - 1, v + I32, v - I32, v + I64])
    qs.update([0, -1, I31, I32 - 1, rng.randrange(-1000, 1000)])
    return dict(kind="enum", items=items, queries=[str(q) for q in sorted(qs)][:24])


def generate(ctx):
    cases = [gen_enum(ctx.rng, u) for u in range(ctx.n(120, 1500))]
    # fixed, model-directed cases: one per branch boundary of build_baseinttype
    for fx, vs in enumerate([[I31 - 1], [I31], [I32 - 1], [I32], [-1, I31 - 1], [-1, I31], [-I31], [-I31 - 1], [I64 - 1],
               [-1, I63 - 1], [-I63], [0], [-1], [5, 5, 5], [-1, I63], [I63, -1]]):
        items = [["f%d_fix%d" % (fx, i), literal(ctx.rng, v), str(v)] for i, v in enumerate(vs)]
        cases.append(dict(kind="enum", items=items, queries=[str(q) for q in sorted(set(vs) | {0, -1, I32, I64 - 1})]))
    return cases


# --------------------------------------------------------------------------- gcc oracle

def gcc_enums(ctx, cases, ids):
    """-> ({id: dict(size, signed, values[])}, {id: 'rejected' | 'exceeds'}, (sizeof int, sizeof long))"""
    s = ctx.scratch()
    status = {}
    live = list(zip(ids, cases))
    for attempt in range(6):
        lines = ["#include <stdio.h>"]
        where = {}
        for idx, c in live:
            items = ", ".join(n if e is None else "%s = %s" % (n, e) for n, e, _v in c["items"])
            where[len(lines) + 1] = idx
            lines.append("enum c10e%d { %s };" % (idx, items))
        lines.append("int main(void) {")
        lines.append('  printf("S %zu %zu\\n", sizeof(int), sizeof(long));')
        for idx, c in live:
            lines.append('  printf("E %d %%zu %%d", sizeof(enum c10e%d), ((enum c10e%d)-1) < 0);' % (idx, idx, idx))
            for n, _e, _v in c["items"]:
                lines.append('  printf(" %%d %%lld %%llu", %s < 0, (long long)%s, (unsigned long long)%s);' % (n, n, n))
            lines.append('  printf("\\n");')
        lines.append("  return 0;\n}")
        cpath = os.path.join(s.work, "c10_probe.c")
        with open(cpath, "w") as f:
            f.write("\n".join(lines) + "\n")
        exe = os.path.join(s.work, "c10_probe")
        p = subprocess.run(["gcc", "-std=gnu11", "-o", exe, cpath], capture_output=True, text=True)
        import re
        errs = set()
        for m in re.finditer(r"c10_probe\.c:(\d+):\d+: (error|warning): (.*)", p.stderr):
            ln, sev, msg = int(m.group(1)), m.group(2), m.group(3)
            if ln in where:
                if sev == "error":
                    errs.add(where[ln])
                    status[where[ln]] = "rejected: " + msg[:80]
                elif "exceed range of largest integer" in msg:
                    status.setdefault(where[ln], "exceeds")
        if p.returncode == 0:
            break
        if not errs:
            raise RuntimeError("gcc probe fails for another reason:\n" + p.stderr[-2000:])
        live = [(i, c) for i, c in live if i not in errs]
    else:
        raise RuntimeError("gcc probe still fails after 6 rounds")
    out = subprocess.run([exe], capture_output=True, text=True, timeout=120).stdout
    facts, sizes = {}, None
    for line in out.splitlines():
        f = line.split()
        if f[0] == "S":
            sizes = (int(f[1]), int(f[2]))
        elif f[0] == "E":
            vals = []
            for k in range(4, len(f), 3):
                vals.append(int(f[k + 1]) if f[k] == "1" else int(f[k + 2]))
            facts[int(f[1])] = dict(size=int(f[2]), signed=bool(int(f[3])), values=vals)
    return facts, status, sizes


def wrap(size, signed, x):
    m = 1 << (8 * size)
    r = x % m
    return r - m if signed and r >= m // 2 else r


def finding_key(case, what):
    return None


PRELUDE = """
From Cffi Require Import C10.Spec C10.Proofs.
Definition base_facts (r : result cstr) : option (Z * bool) :=
  match r with
  | Ok nm => Some (sizes %d %d nm, cstr_eqb nm (s2l "int") || cstr_eqb nm (s2l "long"))
  | Err _ => None
  end.
Definition c10_case (x : list (option Z) * list cstr * list Z) : option (list Z * (Z * bool) * list cstr) :=
  let '(decls, names, qs) := x in
  let vals := build_enum_values decls in
  match base_facts (build_baseinttype (sizes %d %d) vals) with
  | Some (sz, sg) => Some (vals, (sz, sg), map (enum_cast_string (Z.to_nat sz) sg names vals) qs)
  | None => None           (* CDefError *)
  end.
Definition c10_eqb1 (a b : list Z * (Z * bool) * list cstr) : bool :=
  list_eqb Z.eqb (fst (fst a)) (fst (fst b)) &&
  pair_eqb Z.eqb Bool.eqb (snd (fst a)) (snd (fst b)) &&
  list_eqb cstr_eqb (snd a) (snd b).
Definition c10_eqb := opt_eqb c10_eqb1.
"""


def evaluate(ctx, cases):
    s = ctx.scratch()
    ids = list(range(len(cases)))
    gfacts, gstatus, sizes = gcc_enums(ctx, cases, ids)
    api_ids = [i for i in ids if i in gfacts and gstatus.get(i) is None] if (ctx.thorough and len(cases) > 1) else []
    out, p = s.run_worker("c10_worker.py", dict(cases=cases, ids=ids, api=api_ids), timeout=1500)
    if out is None:
        ctx.violation(cases[0], "C10 worker failed: " + (p.stderr[-1500:] or p.stdout[-500:]))
        return
    if out.get("api_error"):
        ctx.violation(cases[0], "API module over %d gcc-accepted enums does not build: %s" % (len(api_ids), out["api_error"]))
    coqcases, owner = [], []
    for idx, (c, r) in enumerate(zip(cases, out["results"])):
        ctx.count()
        g = gfacts.get(idx)
        gs = gstatus.get(idx)
        inl = r["inline"]
        ctx.hist("gcc", "accepted" if (g and not gs) else (gs or "?").split(":")[0])
        ctx.hist("cffi", inl.get("error", "accepted"))
        names = [n for n, _e, _v in c["items"]]
        qs = [int(q) for q in c["queries"]]
        modes = [("in-line", inl), ("out-of-line ABI", r["abi"])]
        if "api" in out and str(idx) in out["api"]:
            modes.append(("API", out["api"][str(idx)]))
        if g is not None and gs is None:
            # ---- the property predicate, decided against gcc
            vmin, vmax = min(g["values"]), max(g["values"])
            ctx.nontrivial(("enum", g["size"], g["signed"], len(names), len(set(g["values"])) < len(names),
                            any(e is None for _n, e, _v in c["items"]), vmin.bit_length(), vmax.bit_length()))
            want_strings = []
            for q in qs:
                w = wrap(g["size"], g["signed"], q)
                hit = [n for n, v in zip(names, g["values"]) if v == w]
                want_strings.append(hit[0] if hit else str(w))
            for mode, m in modes:
                ctx.hist("mode", mode)
                if "error" in m:
                    ctx.violation(c, "%s: %s (%s) on an enum gcc accepts: %s" % (mode, m["error"], m.get("msg", "")[:100], r["decl"]))
                    continue
                if (m["size"], m["signed"]) != (g["size"], g["signed"]):
                    ctx.violation(c, "%s: sizeof/signed = %d/%s, gcc %d/%s for %s" % (
                        mode, m["size"], m["signed"], g["size"], g["signed"], r["decl"]))
                for key in ("values", "lib", "const"):
                    if key in m and [int(x) for x in m[key]] != g["values"]:
                        ctx.violation(c, "%s: enumerator values (%s) %s, gcc %s for %s" % (
                            mode, key, m[key], g["values"], r["decl"]))
                if m["strings"] != want_strings:
                    bad = [(q, a, b) for q, a, b in zip(qs, m["strings"], want_strings) if a != b][:3]
                    ctx.violation(c, "%s: ffi.string(cast(enum, q)) (q, got, first-declared-or-decimal): %r for %s" % (
                        mode, bad, r["decl"]))
        elif gs == "exceeds" and "error" not in inl:
            ctx.violation(c, "in-line accepts an enum whose values exceed every integer type for gcc: " + r["decl"])
        # ---- model vs implementation (all cases, including the ones gcc rejects)
        if True:      # every case goes to the model (values are already evaluated integers)
            decls = clist(["None" if e is None else "(Some %s)" % cz(int(v)) for _n, e, v in c["items"]])
            inp = cpair(cpair(decls, clist([cstr(n) for n in names])), clist([cz(q) for q in qs]))
            if "error" in inl:
                if inl["error"] != "CDefError":
                    ctx.violation(c, "in-line: unexpected %s for %s" % (inl["error"], r["decl"]))
                    continue
                # values unknown to the implementation: compare the decision only (model must also reject)
                exp = None
            else:
                exp = "(Some %s)" % cpair(cpair(clist([cz(int(x)) for x in inl["values"]]),
                                               cpair(cz(inl["size"]), cbool(inl["signed"]))),
                                         clist([cstr(x) for x in inl["strings"]]))
            coqcases.append((inp, exp if exp is not None else "(@None (list Z * (Z * bool) * list cstr))"))
            owner.append(idx)
    if coqcases and sizes:
        pre = PRELUDE % (sizes[0], sizes[1], sizes[0], sizes[1])
        bad, outs, err = vlib.coq_mismatches(["C10.Model", "C10.Gen"], "c10_case", "c10_eqb", coqcases, prelude=pre,
                                             shard=400)
        if err:
            ctx.obligation_broken("C10 model evaluation", err)
        for i in bad:
            ctx.mismatch(cases[owner[i]], "model (values, (size, signed), strings | None=CDefError) = %s; in-line "
                         "implementation: %s" % (outs.get(i), coqcases[i][1][:600]),
                         "C10 model (Gen.build_enum_values/build_baseinttype + Model.enum_string) vs in-line cffi")
    for c in cases[:3]:
        ctx.sample(c)


def run(ctx):
    ctx.cov["rule"] = ("random enum declarations (1..8 enumerators; explicit values from the boundaries of int/unsigned/"
                       "long/unsigned long +-1, small values, duplicates, references to earlier enumerators, implicit "
                       "runs; literals in decimal/hex/octal/char/suffixed form) + one fixed case per branch boundary of "
                       "build_baseinttype; each declared in-line, through an out-of-line ABI module, and (thorough) all "
                       "together in one API module; sizeof, signedness, values (relements, lib attribute, integer_const) "
                       "and ffi.string() on each value, its neighbours and its 2^32/2^64 aliases compared with a gcc probe. "
                       "Non-trivial = gcc-accepted declaration, distinct by (gcc size, signedness, #enumerators, has "
                       "duplicates, has implicit, bit lengths of min and max).")
    ctx.assumptions += [
        "gcc 12 -std=gnu11 as the platform C compiler; C10/Spec.v gcc_base is compared with its answers on every run",
        "shape-matching drivers tools/props/c10_regen.py (build_baseinttype, _build_enum_type, EnumExpr table) and "
        "py2coq.Expr for the holes",
        "hand model of b_new_enum_type / convert_cdata_to_enum_string (C10/Model.v), tied by this run's differential test",
        "declarations gcc rejects (implicit increment past the type of the previous enumerator) are outside the property's "
        "domain; integer literal semantics of cdef constants is C09's subject (literals are kept where C and cffi agree)"]
    evaluate(ctx, generate(ctx))


MANIFEST = dict(
    technique="Coq proof about the regenerated build_baseinttype / _build_enum_type (all value lists, unbounded) and the "
              "hand model of the value->name dictionary + differential correspondence against gcc in in-line, ABI and "
              "API modes",
    text="Proof: for every non-empty list of enumerator values and every sizeof(int), sizeof(long) >= 1, the regenerated "
         "model.EnumType.build_baseinttype returns exactly gcc's underlying type (unsigned int / int / unsigned long / "
         "long) and raises CDefError exactly when none exists; the regenerated value assignment of _build_enum_type is "
         "C11 6.7.2.2p3; the dictionary built by b_new_enum_type from last to first maps a value to the first declared "
         "name, so ffi.string() is that name or the decimal number; casting stores the low bytes and reading them back is "
         "wrap (C10_cast_store_is_wrap), so ffi.string(ffi.cast(e, x)) is as stated for x in range (C10_string_of_cast) and, for every integer x, is decided by the wrapped value (C10_string_of_cast_all); the two (size, signed)->index encodings agree. "
         "Random and boundary declarations are compared with gcc (sizeof, signedness, values, strings) in in-line and "
         "out-of-line ABI mode on every run, in API mode in the thorough tier only. Not proved (correspondence only): "
         "enumerators referring to earlier constants, sizeof(enum)/sign expression of API mode, OP_ENUM realisation.",
    note="Trusted: Coq kernel; the shape-matching drivers; Spec.v as a description of gcc (tied only transitively: "
         "Spec = model by theorem, model = implementation = gcc by correspondence on the sampled declarations); the C "
         "loop direction of b_new_enum_type is hand-copied (no C regeneration); hand model of the C dictionary code (differential test). Theorems closed under "
         "the global context.",
    design_ref="DESIGN.md §4 C10")
