"""C18: regenerate coq/C18/Gen.v (the casenum if-chains and the switch of b_unpack) from
src/c/_cffi_backend.c.  Fail closed: any deviation from the recorded shape raises RegenError and the
committed snapshot is used (the correspondence run then carries the tie)."""
import re


class RegenError(Exception):
    pass


CTY = {
    "signed char": "T_schar", "short": "T_short", "int": "T_int", "long": "T_long",
    "long long": "T_longlong", "PY_LONG_LONG": "T_longlong",
    "unsigned char": "T_uchar", "unsigned short": "T_ushort", "unsigned int": "T_uint",
    "unsigned long": "T_ulong", "unsigned long long": "T_ulonglong", "unsigned PY_LONG_LONG": "T_ulonglong",
    "float": "T_float", "double": "T_double",
}


def strip_comments(s):
    return re.sub(r"/\*.*?\*/", " ", s, flags=re.S)


def norm(s):
    return " ".join(strip_comments(s).split())


def cty(name):
    name = " ".join(name.split())
    if name not in CTY:
        raise RegenError("unknown C type %r in b_unpack" % name)
    return CTY[name]


def parse_chain(text):
    """'if (itemsize == sizeof(T)) casenum = N; else if ...' -> [(T, N)]"""
    out, pos, first = [], 0, True
    rx = re.compile(r"\s*(else )?if \(itemsize == sizeof\(([a-zA-Z_ ]+)\)\) casenum = (\d+);")
    while pos < len(text):
        m = rx.match(text, pos)
        if not m:
            if text[pos:].strip() == "":
                break
            raise RegenError("casenum chain: unexpected text %r" % text[pos:pos + 60])
        if first != (m.group(1) is None):
            raise RegenError("casenum chain: if / else-if structure changed near %r" % m.group(0))
        first = False
        out.append((cty(m.group(2)), int(m.group(3))))
        pos = m.end()
    if not out:
        raise RegenError("empty casenum chain")
    return out


def extract(src):
    m = re.search(r"static PyObject \*b_unpack\(PyObject \*self, PyObject \*args, PyObject \*kwds\)\n\{(.*?)\n\}\n",
                  src, re.S)
    if not m:
        raise RegenError("b_unpack not found")
    body = m.group(1)
    # --- the macro
    mm = re.search(r"#define ALIGNMENT_CHECK\(align\)(.*?)\n\n", body, re.S)
    if not mm or norm(mm.group(1).replace("\\\n", " ")) != \
            "(((align) & ((align) - 1)) == 0 && (((uintptr_t)src) & ((align) - 1)) == 0)":
        raise RegenError("ALIGNMENT_CHECK changed")
    # --- the selection
    ms = re.search(r"\n    casenum = -1;\n(.*?)#undef ALIGNMENT_CHECK", body, re.S)
    if not ms:
        raise RegenError("casenum selection block not found")
    sel = norm(ms.group(1))
    shape = re.compile(
        r"^if \(\(ctitem->ct_flags & CT_PRIMITIVE_ANY\) && ALIGNMENT_CHECK\(ctitem->ct_length\)\) \{ "
        r"if \(ctitem->ct_flags & CT_PRIMITIVE_SIGNED\) \{ (?P<s>[^{}]*?) \} "
        r"else if \(ctitem->ct_flags & CT_PRIMITIVE_UNSIGNED\) \{ "
        r"if \(ctitem->ct_flags & CT_IS_BOOL\) casenum = (?P<b>\d+); else (?P<u>[^{}]*?) \} "
        r"else if \(ctitem->ct_flags & CT_PRIMITIVE_FLOAT\) \{ (?P<f>[^{}]*?) \} \} "
        r"else if \(ctitem->ct_flags & \(CT_POINTER \| CT_FUNCTIONPTR\)\) \{ casenum = (?P<p>\d+); \}$")
    m2 = shape.match(sel)
    if not m2:
        raise RegenError("casenum selection: shape changed")
    t_signed = parse_chain(m2.group("s"))
    t_unsigned = parse_chain(m2.group("u"))
    t_float = parse_chain(m2.group("f"))
    t_bool, t_ptr = int(m2.group("b")), int(m2.group("p"))
    # --- the loop and its switch
    ml = re.search(r"\n    for \(i = 0; i < length; i\+\+\) \{\n(.*?)\n    \}\n    return result;", body, re.S)
    if not ml:
        raise RegenError("unpack loop not found")
    loop = norm(ml.group(1))
    m3 = re.match(r"^PyObject \*x; switch \(casenum\) \{ default: x = convert_to_object\(src, ctitem\); break; "
                  r"(?P<cases>.*) \} if \(x == NULL\) \{ Py_DECREF\(result\); return NULL; \} "
                  r"PyList_SET_ITEM\(result, i, x\); src \+= itemsize;$", loop)
    if not m3:
        raise RegenError("unpack loop: shape changed")
    cases = m3.group("cases")
    fast, pos = [], 0
    rx_simple = re.compile(r"\s*case (\d+): x = (PyLong_FromLong|PyLong_FromUnsignedLong|PyFloat_FromDouble)"
                           r"\((\(long\))?\*\(([a-zA-Z_ ]+?) \*\)src\); break;")
    rx_ptr = re.compile(r"\s*case (\d+): x = new_simple_cdata\(\*\(char \*\*\)src, ctitem\); break;")
    rx_bool = re.compile(r"\s*case (\d+): switch \(\*\(unsigned char \*\)src\) \{ "
                         r"case 0: x = Py_False; Py_INCREF\(x\); break; "
                         r"case 1: x = Py_True; Py_INCREF\(x\); break; "
                         r"default: x = convert_to_object\(src, ctitem\); \} break;")
    while pos < len(cases):
        if cases[pos:].strip() == "":
            break
        m4 = rx_simple.match(cases, pos)
        if m4:
            n, fn, cast, t = int(m4.group(1)), m4.group(2), m4.group(3), cty(m4.group(4))
            if fn == "PyLong_FromLong":
                fast.append((n, "FP_FromLong %s %s" % ("true" if cast else "false", t)))
            elif cast:
                raise RegenError("unexpected cast in case %d" % n)
            elif fn == "PyLong_FromUnsignedLong":
                fast.append((n, "FP_FromUnsignedLong %s" % t))
            else:
                fast.append((n, "FP_FromDouble %s" % t))
            pos = m4.end()
            continue
        m4 = rx_ptr.match(cases, pos)
        if m4:
            fast.append((int(m4.group(1)), "FP_NewPtr"))
            pos = m4.end()
            continue
        m4 = rx_bool.match(cases, pos)
        if m4:
            fast.append((int(m4.group(1)), "FP_Bool"))
            pos = m4.end()
            continue
        raise RegenError("switch: unexpected text %r" % cases[pos:pos + 80])
    nums = [n for n, _ in fast]
    if len(set(nums)) != len(nums):
        raise RegenError("duplicate case labels")
    return dict(signed=t_signed, unsigned=t_unsigned, float=t_float, bool=t_bool, pointer=t_ptr, fast=fast)


def render(t):
    def chain(l):
        return "[" + "; ".join("(%s, %d)" % (a, b) for a, b in l) + "]"
    return (
        "(* GENERATED by tools/props/c18_regen.py from src/c/_cffi_backend.c (b_unpack) - do not edit.\n"
        "   The casenum if-chains and the `switch (casenum)` of the unpack loop. *)\n"
        "From Coq Require Import ZArith List.\nImport ListNotations.\n"
        "From Cffi Require Import C18.Model.\nOpen Scope Z_scope.\n\n"
        "Definition gen_tables : tables := {|\n"
        "  tb_signed := %s;\n  tb_bool := %d;\n  tb_unsigned := %s;\n  tb_float := %s;\n  tb_pointer := %d;\n"
        "  tb_fast := [\n%s\n  ]\n|}.\n" % (
            chain(t["signed"]), t["bool"], chain(t["unsigned"]), chain(t["float"]), t["pointer"],
            ";\n".join("    (%d, %s)" % (n, f) for n, f in t["fast"])))
