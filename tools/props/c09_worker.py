"""C09 worker: integer constant expressions through the real cffi parser (scratch copy).

For each expression text:
  parser : value of `enum e { E = EXPR };` (the enumerator position accepts any value) or 'EXC Class'
  reads  : the same expression in the other positions and through the other reading paths, where the
           position admits the value: array length (typeof().length, sizeof), bitfield width, #define and
           static const (literals), in-line and out-of-line ABI mode (and API mode when asked).
"""
import importlib.util
import os
import sys
import warnings

warnings.simplefilter("ignore")

import cffi
from lib.vlib import worker_main


def exc_name(e):
    return "EXC " + type(e).__name__


PREFIX = ""


def enum_value(text):
    try:
        ffi = cffi.FFI()
        ffi.cdef(PREFIX + "enum e { E = %s };" % text)
        return ffi._parser._int_constants["E"]
    except Exception as e:
        return exc_name(e)


def inline_reads(text, v, literal, neg_literal):
    reads = {}
    # enumerator through the public API (needs a value that fits some 64-bit type)
    if -2 ** 63 <= v < 2 ** 64:
        try:
            ffi = cffi.FFI()
            ffi.cdef(PREFIX + "enum e { E = %s };" % text)
            reads["inline.lib.E"] = ffi.dlopen(None).E
            if -2 ** 63 <= v < 2 ** 63 or v >= 0:
                reads["inline.relements"] = ffi.typeof("enum e").relements["E"]
        except Exception as e:
            reads["inline.enum"] = exc_name(e)
    if 0 <= v < BIG:
        try:
            ffi = cffi.FFI()
            ffi.cdef(PREFIX + "typedef char T[%s];" % text)
            reads["inline.length"] = ffi.typeof("T").length
            reads["inline.sizeof"] = ffi.sizeof("T")
        except Exception as e:
            reads["inline.array"] = exc_name(e)
    if 1 <= v <= 32:
        try:
            ffi = cffi.FFI()
            ffi.cdef(PREFIX + "struct s { unsigned int b : %s; };" % text)
            reads["inline.bitsize"] = ffi.typeof("struct s").fields[0][1].bitsize
        except Exception as e:
            reads["inline.bitfield"] = exc_name(e)
    if literal or neg_literal:
        lit = text.strip("() ").replace(" ", "") if neg_literal else text
        for tag, src in (("define", "#define N %s" % lit), ("static_const", "static const long long N = %s;" % lit)):
            try:
                ffi = cffi.FFI()
                ffi.cdef(src)
                reads["inline.%s" % tag] = ffi.dlopen(None).N
            except Exception as e:
                reads["inline.%s" % tag] = exc_name(e)
    return reads


BIG = 2 ** 62      # array lengths up to here are asked of the back end (char/short items: no size overflow)


def runtime_reads(f, tag, v, text, literal, reads):
    """the array length as a TYPE STRING parsed at run time by the C parser (parse_c_type.c) and realized by
    realize_c_type.c: typeof("char[<literal>]").length and sizeof, the value written in two radixes (chosen by the
    value) and, for a literal, as the literal itself without suffix"""
    forms = [("dec", "%d" % v), ("hex", "0x%x" % v), ("oct", "0%o" % v if v else "0")]
    forms = [forms[v % 3], forms[(v // 3 + 1) % 3]] if forms[v % 3] != forms[(v // 3 + 1) % 3] else [forms[v % 3]]
    if literal and not text.lower().startswith("0b"):
        forms.append(("lit", text.rstrip("uUlL")))
    for radix, form in forms:
        for item, isz in (("char", 1), ("short", 2)):
            key = "%s.typeof(%s[%s])" % (tag, item, radix)
            try:
                ct = f.typeof("%s[%s]" % (item, form))
                reads[key + ".length"] = ct.length
                sz = f.sizeof(ct)
                reads[key + ".sizeof/%d" % isz] = sz // isz if sz % isz == 0 else ("EXC odd size %d" % sz)
            except Exception as e:
                reads[key] = exc_name(e)


def ool_batch(cases, results, tag, api):
    """one out-of-line module for all accepted cases"""
    work = os.environ["VERIF_WORK"]
    lines, csrc, want = [], [], []
    for i, (c, r) in enumerate(zip(cases, results)):
        v = r["parser"]
        if not isinstance(v, int) or not (-2 ** 63 <= v < 2 ** 64):
            continue
        if api and r.get("skip_api"):
            continue
        if not api or c.get("api_ok"):
            lines.append("enum e%d { E%d = %s };" % (i, i, c["text"]))
            want.append((i, "enum"))
        if 0 < v < (2 ** 40 if api else 2 ** 31) and isinstance(r["reads"].get("inline.length"), int):
            lines.append("typedef char T%d[%s];" % (i, c["text"]))
            want.append((i, "array"))
        if c["literal"] and isinstance(r["reads"].get("inline.define"), int) and (not api or c.get("api_ok")):
            lines.append("#define D%d %s" % (i, c["text"]))
            want.append((i, "define"))
    if not lines:
        return
    ffi = cffi.FFI()
    modname = "_c09_%s" % tag
    try:
        ffi.cdef(PREFIX + "\n" + "\n".join(lines))
        if api:
            ffi.set_source(modname, PREFIX + "\n" + "\n".join(l for l in lines if not l.startswith("#")) + "\n" +
                           "\n".join(l for l in lines if l.startswith("#")))
            ffi.compile(tmpdir=work)
            sys.path.insert(0, work)
            mod = importlib.import_module(modname)
        else:
            ffi.set_source(modname, None)
            path = os.path.join(work, modname + ".py")
            ffi.emit_python_code(path)
            spec = importlib.util.spec_from_file_location(modname, path)
            mod = importlib.util.module_from_spec(spec)
            spec.loader.exec_module(mod)
    except Exception as e:
        for i, _ in want:
            results[i]["reads"]["%s.module" % tag] = exc_name(e) + ": " + str(e)[:200]
        return
    f2 = mod.ffi
    seen = set()
    for i, what in want:
        v = results[i]["parser"]
        if i not in seen and isinstance(v, int) and 0 <= v < BIG:
            seen.add(i)
            runtime_reads(f2, tag + ".rt", v, cases[i]["text"], cases[i]["literal"], results[i]["reads"])
        try:
            if what == "enum":
                results[i]["reads"]["%s.integer_const(E)" % tag] = f2.integer_const("E%d" % i)
                results[i]["reads"]["%s.relements" % tag] = f2.typeof("enum e%d" % i).relements["E%d" % i]
                if api:
                    results[i]["reads"]["%s.lib.E" % tag] = getattr(mod.lib, "E%d" % i)
            elif what == "array":
                results[i]["reads"]["%s.length" % tag] = f2.typeof("T%d" % i).length
                results[i]["reads"]["%s.sizeof" % tag] = f2.sizeof("T%d" % i)
            else:
                results[i]["reads"]["%s.define" % tag] = f2.integer_const("D%d" % i)
                if api:
                    results[i]["reads"]["%s.lib.D" % tag] = getattr(mod.lib, "D%d" % i)
        except Exception as e:
            results[i]["reads"]["%s.%s" % (tag, what)] = exc_name(e)


import _cffi_backend
BARE = _cffi_backend.FFI()


def main(payload):
    global PREFIX
    PREFIX = payload.get("prefix", "")
    cases = payload["cases"]
    results = []
    for c in cases:
        v = enum_value(c["text"])
        r = dict(parser=v, reads={})
        if isinstance(v, int):
            r["reads"] = inline_reads(c["text"], v, c["literal"], c["neg_literal"])
            if 0 <= v < BIG:
                runtime_reads(BARE, "bare.rt", v, c["text"], c["literal"], r["reads"])
        results.append(r)
    for lo in range(0, len(cases), 400):
        ool_batch(cases[lo:lo + 400], results[lo:lo + 400], "ool%d" % lo, api=False)
    api_info = None
    if payload.get("api"):
        # API mode: the C compiler supplies the values and cffi cross-checks enums; only cases whose cdef value
        # agrees with C can be loaded at all, so this is run on the cases flagged by the caller
        n = 0
        for lo in range(0, len(cases), 300):
            sub, subr = cases[lo:lo + 300], results[lo:lo + 300]
            for c, r in zip(sub, subr):
                r["skip_api"] = not (c.get("api_ok", False) or c.get("api_arr", False))
            ool_batch(sub, subr, "api%d" % lo, api=True)
            n += sum(1 for r in subr if not r["skip_api"])
        api_info = dict(cases=n)
    for r in results:
        r.pop("skip_api", None)
    return dict(results=results, api=api_info)


worker_main(main)
