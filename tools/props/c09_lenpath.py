"""C09 — the path of an array length from the opcode stream to new_array_type(), regenerated from
src/c/realize_c_type.c, src/c/_cffi_backend.c and src/cffi/parse_c_type.h  (REVIEW3 C09 / seed C09-c).

The length of an out-of-line array type is stored in the opcode stream as `opcodes[index + 1]` (a _cffi_opcode_t,
i.e. a pointer-wide word) and is handed, in realize_c_type_or_func_now() under `case _CFFI_OP_ARRAY:`, through a cast,
possibly local variables and possibly static helper functions, to new_array_type(ctptr, length).  This module follows
that data flow textually and lists the C type of EVERY hop (cast, variable, parameter).  The list goes into
coq/C09/Gen.v as `length_path`; coq/C09/Props.v proves from it that every value in [0, 2^63) arrives unchanged
(C09_length_path_preserves) — which is provable only if every hop is at least 64 bits wide.

Fail closed: whatever cannot be followed or whose type is unknown becomes a hop of width 0, which breaks the proof
obligation (it is NOT a silent fallback to the committed snapshot)."""
import os
import re

# LP64 (the framework's stated platform, cf. C09/Spec.v): type text -> (signed, bits)
WIDTHS = {
    "Py_ssize_t": (True, 64), "ssize_t": (True, 64), "long": (True, 64), "long long": (True, 64), "long int": (True, 64),
    "long long int": (True, 64), "intptr_t": (True, 64), "ptrdiff_t": (True, 64), "int64_t": (True, 64),
    "size_t": (False, 64), "unsigned long": (False, 64), "unsigned long long": (False, 64), "uintptr_t": (False, 64),
    "uint64_t": (False, 64), "void *": (False, 64),
    "int": (True, 32), "signed": (True, 32), "signed int": (True, 32), "int32_t": (True, 32),
    "unsigned": (False, 32), "unsigned int": (False, 32), "uint32_t": (False, 32),
    "short": (True, 16), "short int": (True, 16), "int16_t": (True, 16), "unsigned short": (False, 16), "uint16_t": (False, 16),
    "char": (True, 8), "signed char": (True, 8), "unsigned char": (False, 8), "int8_t": (True, 8), "uint8_t": (False, 8),
}


def norm_type(t):
    t = re.sub(r"\b(const|volatile|register|static)\b", " ", t)
    t = re.sub(r"\s*\*\s*", " * ", t)
    return " ".join(t.split()).replace("* *", "**")


def strip_comments(src):
    src = re.sub(r"/\*.*?\*/", lambda m: re.sub(r"[^\n]", " ", m.group(0)), src, flags=re.S)
    return re.sub(r"//[^\n]*", "", src)


def find_function(src, name):
    """(parameter list text, body text) of the DEFINITION of `name`, or None"""
    for m in re.finditer(r"^%s\s*\(" % re.escape(name), src, flags=re.M):
        i = m.end() - 1
        j = match_paren(src, i)
        if j is None:
            continue
        k = j + 1
        while k < len(src) and src[k] in " \t\r\n":
            k += 1
        if k < len(src) and src[k] == "{":
            e = match_paren(src, k, "{", "}")
            if e is not None:
                return src[i + 1:j], src[k + 1:e]
    return None


def match_paren(s, i, o="(", c=")"):
    depth = 0
    for k in range(i, len(s)):
        if s[k] == o:
            depth += 1
        elif s[k] == c:
            depth -= 1
            if depth == 0:
                return k
    return None


def split_args(text):
    out, depth, cur = [], 0, ""
    for ch in text:
        if ch in "([":
            depth += 1
        elif ch in ")]":
            depth -= 1
        if ch == "," and depth == 0:
            out.append(cur)
            cur = ""
        else:
            cur += ch
    out.append(cur)
    return [a.strip() for a in out]


def param_type(params, pos=None, name=None):
    """type and name of a parameter, by position or by name"""
    for n, p in enumerate(split_args(params)):
        m = re.match(r"^(.*?)(\w+)\s*(\[\s*\])?$", p.strip(), flags=re.S)
        if not m:
            continue
        if (pos is not None and n == pos) or (name is not None and m.group(2) == name):
            return norm_type(m.group(1) + (" *" if m.group(3) else "")), m.group(2)
    return None, None


def local_type(body, params, var):
    t, _ = param_type(params, name=var)
    if t is not None:
        return t
    for m in re.finditer(r"(?:^|(?<=[;{}]))\s*((?:(?:unsigned|signed|const|long|short|static|register)\s+)*\w+)\s+([^;(){}]*);", body):
        decls = split_args(m.group(2))
        for d in decls:
            dm = re.match(r"^(\**)\s*(\w+)\s*(=.*)?$", d, flags=re.S)
            if dm and dm.group(2) == var and m.group(1) not in ("return", "goto", "case", "else"):
                return norm_type(m.group(1) + " " + dm.group(1))
    return None


CAST = re.compile(r"^\(\s*([A-Za-z_][\w\s\*]*?)\s*\)\s*(.*)$", re.S)


def peel_casts(expr, hops, where):
    """(T1)(T2)core -> core; the casts are hops (innermost is applied first)"""
    casts = []
    while True:
        m = CAST.match(expr.strip())
        if not m or not re.match(r"^[\w\[(]", m.group(2).strip()):
            break
        casts.append(norm_type(m.group(1)))
        expr = m.group(2)
    for t in reversed(casts):
        hops.append(("cast (%s) in %s" % (t, where), t))
    return expr.strip()


def enclosing_call(body, pos):
    """(callee, argument index, full argument text) of the innermost call whose parenthesis encloses body[pos]"""
    depth = 0
    for k in range(pos - 1, -1, -1):
        if body[k] == ")":
            depth += 1
        elif body[k] == "(":
            if depth == 0:
                m = re.search(r"(\w+)\s*$", body[:k])
                e = match_paren(body, k)
                if not m or e is None:
                    return None
                args = split_args(body[k + 1:e])
                off, idx = k + 1, None
                for n, a in enumerate(split_args_raw(body[k + 1:e])):
                    if off <= pos < off + len(a) + 1:
                        idx = n
                        break
                    off += len(a) + 1
                return (m.group(1), idx, args[idx]) if idx is not None else None
            depth -= 1
        elif body[k] in ";{}":
            return None
    return None


def split_args_raw(text):
    out, depth, cur = [], 0, ""
    for ch in text:
        if ch in "([":
            depth += 1
        elif ch in ")]":
            depth -= 1
        if ch == "," and depth == 0:
            out.append(cur)
            cur = ""
        else:
            cur += ch
    out.append(cur)
    return out


def follow_value(src, backend, fname, params, body, core_re, hops, depth, full=None):
    """follow the value matched by core_re (a regex for an expression text) inside `body`"""
    full = full if full is not None else body          # the whole function body: where the declarations are
    if depth > 5:
        hops.append(("UNTRACEABLE: helper nesting too deep in %s" % fname, "?"))
        return
    found = False
    for m in re.finditer(core_re, body):
        # (a) whole right-hand side of an assignment:  VAR = (CAST)core;
        stmt_start = max(body.rfind(";", 0, m.start()), body.rfind("{", 0, m.start()), body.rfind("}", 0, m.start()),
                         body.rfind(":", 0, m.start())) + 1
        stmt_end = body.find(";", m.end())
        stmt = body[stmt_start:stmt_end].strip() if stmt_end >= 0 else ""
        am = re.match(r"^(\w+)\s*=\s*(.*)$", stmt, flags=re.S)
        if am and not am.group(2).lstrip().startswith("="):
            h2 = []
            core = peel_casts(am.group(2), h2, fname)
            if re.fullmatch(core_re, core):
                hops.extend(h2)
                var = am.group(1)
                t = local_type(full, params, var)
                hops.append(("variable '%s' of %s" % (var, fname), t or "?"))
                follow_value(src, backend, fname, params, body[stmt_end:], r"\b%s\b" % re.escape(var), hops, depth + 1, full)
                return
        # (b) a whole argument of a call
        call = enclosing_call(body, m.start())
        if call is not None and call[0] not in ("if", "while", "for", "switch", "return", "sizeof", "assert"):
            callee, idx, arg = call
            h2 = []
            core = peel_casts(arg, h2, fname)
            if not re.fullmatch(core_re, core):
                continue
            hops.extend(h2)
            found = True
            if callee == "new_array_type":
                f = find_function(backend, "new_array_type")
                t, pn = param_type(f[0], pos=idx) if f else (None, None)
                hops.append(("parameter '%s' of new_array_type" % (pn or idx), t or "?"))
                return
            f = find_function(src, callee)
            if f is None:
                hops.append(("UNTRACEABLE: %s() called from %s is not defined in realize_c_type.c" % (callee, fname), "?"))
                return
            t, pn = param_type(f[0], pos=idx)
            hops.append(("parameter '%s' of %s" % (pn, callee), t or "?"))
            if pn is None:
                return
            follow_value(src, backend, callee, f[0], f[1], r"\b%s\b" % re.escape(pn), hops, depth + 1)
            return
    if not found:
        hops.append(("UNTRACEABLE: the length does not reach new_array_type in %s" % fname, "?"))


def length_path(repo):
    """list of (description, C type text, signed, bits); bits = 0 for whatever could not be followed"""
    hops = []
    try:
        src = strip_comments(open(os.path.join(repo, "src", "c", "realize_c_type.c")).read())
        backend = strip_comments(open(os.path.join(repo, "src", "c", "_cffi_backend.c")).read())
        hdr = strip_comments(open(os.path.join(repo, "src", "cffi", "parse_c_type.h")).read())
        m = re.search(r"typedef\s+([^;]*?)\s*\b_cffi_opcode_t\s*;", hdr)
        hops.append(("opcode word _cffi_opcode_t", norm_type(m.group(1)) if m else "?"))
        f = find_function(src, "realize_c_type_or_func_now")
        if f is None:
            raise ValueError("realize_c_type_or_func_now not found")
        params, body = f
        s = body.find("case _CFFI_OP_ARRAY:")
        if s < 0:
            raise ValueError("case _CFFI_OP_ARRAY not found")
        e = re.compile(r"case\s+(?!_CFFI_OP_OPEN_ARRAY\b)\w+\s*:").search(body, s + 10)
        seg = body[s:e.start() if e else len(body)]
        core_re = r"opcodes\s*\[\s*index\s*\+\s*1\s*\]"
        if len(re.findall(core_re, seg)) != 1:
            raise ValueError("expected exactly one read of opcodes[index + 1] under case _CFFI_OP_ARRAY")
        # declarations of the function are outside the segment: give local_type the whole body
        follow_in_segment(src, backend, params, body, seg, core_re, hops)
    except (OSError, ValueError) as ex:
        hops.append(("UNTRACEABLE: %s" % ex, "?"))
    out = []
    for desc, t in hops:
        sg, bits = WIDTHS.get(t, (True, 0))
        out.append((desc, t, sg, bits))
    return out


def follow_in_segment(src, backend, params, body, seg, core_re, hops):
    # the declarations live at the top of the function: prepend them (everything before the switch)
    head = body[:body.find("switch")] if "switch" in body else ""
    follow_value(src, backend, "realize_c_type_or_func_now", params, head + seg, core_re, hops, 0)


MARKER = "\n(* REGENERATED by tools/props/c09_lenpath.py"


def coq_text(path):
    def cs(s):
        return '"%s"%%string' % s.replace('"', '""')
    items = "; ".join("(%s, (%s, %d))" % (cs("%s : %s" % (d, t)), "true" if sg else "false", bits) for d, t, sg, bits in path)
    return ("\n(* REGENERATED by tools/props/c09_lenpath.py from src/c/realize_c_type.c (case _CFFI_OP_ARRAY of\n"
            "   realize_c_type_or_func_now), src/c/_cffi_backend.c (new_array_type) and src/cffi/parse_c_type.h: every cast,\n"
            "   variable and parameter the length of an out-of-line array type passes through between the opcode stream and\n"
            "   new_array_type(), with (signed?, width in bits) on LP64; width 0 = could not be followed / unknown type. *)\n"
            "Definition length_path : list (string * (bool * Z)) :=\n  [%s].\n" % items)


if __name__ == "__main__":
    import sys
    for h in length_path(os.environ.get("VERIF_REPO", "/repo")):
        print(h)
