"""C30 worker (scratch copy of cffi; the ctype op runs under the ASan+UBSan backend).

op=py   : texts through FFI().cdef / FFI().typeof of the in-line (Python) front end; exception class and origin
op=ctype: strings through typeof() of a compiled-style FFI (_cffi_backend.FFI): the C parser parse_c_type.c
op=re   : strings through cparser._r_int_literal
"""
import os
import sys
import traceback
import warnings

warnings.simplefilter("ignore")

import cffi
from cffi import cparser
from lib.vlib import worker_main


def origin(e):
    tb = traceback.extract_tb(e.__traceback__)
    frames = [(os.path.basename(os.path.dirname(f.filename)) + "/" + os.path.basename(f.filename), f.name) for f in tb]
    inner = frames[-1] if frames else ("?", "?")
    in_pycparser = any(f[0].startswith("pycparser/") for f in frames)
    # innermost frame that belongs to cffi
    cf = [f for f in frames if f[0].startswith("cffi/")]
    return dict(inner="%s:%s" % inner, cffi_frame="%s:%s" % cf[-1] if cf else None, pycparser=in_pycparser)


def do_py(cases):
    res = []
    for c in cases:
        try:
            ffi = cffi.FFI()
            if c["api"] == "cdef":
                ffi.cdef(c["text"])
            else:
                ffi.typeof(c["text"])
            res.append(dict(exc=None))
        except Exception as e:
            d = dict(exc=type(e).__name__, msg=str(e)[:160])
            d.update(origin(e))
            res.append(d)
    return res


class StrSub(str):
    pass


class EvilStr(str):
    """a str subclass whose Python-level conversions all fail: the back end must use the str payload (or refuse)"""
    def __str__(self):
        raise RuntimeError("EvilStr.__str__")

    def encode(self, *a, **k):
        raise RuntimeError("EvilStr.encode")

    def __bytes__(self):
        raise RuntimeError("EvilStr.__bytes__")


class BytesSub(bytes):
    pass


def build_arg(c):
    """the Python object handed to the API: `text` (old ctype cases) or the concatenation of parts [[s, n], ...]"""
    text = "".join(s * n for s, n in c["parts"]) if "parts" in c else c["text"]
    form = c.get("form") or ("bytes" if c.get("bytes") else "str")
    if form == "str":
        return text
    if form == "sub":
        return StrSub(text)
    if form == "evil":
        return EvilStr(text)
    b = text.encode(c.get("enc") or "latin-1", "surrogatepass")
    if form == "bytes":
        return b
    if form == "bytessub":
        return BytesSub(b)
    if form == "bytearray":
        return bytearray(b)
    return memoryview(b)


def call_api(f, lib, api, a):
    if api == "typeof":
        return f.typeof(a)
    if api == "new":
        return f.new(a)
    if api == "cast":
        return f.cast(a, 0)
    if api == "sizeof":
        return f.sizeof(a)
    if api == "alignof":
        return f.alignof(a)
    if api == "getctype":
        return f.getctype(a)
    if api == "getctype2":
        return f.getctype("int", a)
    if api == "offsetof":
        return f.offsetof(a, "a")
    if api == "offsetof2":
        return f.offsetof("foo_t", a)
    if api == "offsetof3":
        return f.offsetof("foo_t", "b", a)
    if api == "callback":
        return f.callback(a, lambda *args: 0)
    if api == "from_buffer":
        return f.from_buffer(a, bytearray(64))
    if api == "integer_const":
        return f.integer_const(a)
    if api == "libattr":
        return getattr(lib, a)
    if api == "libhas":
        return hasattr(lib, a)
    if api == "addressof":
        return f.addressof(lib, a)
    raise KeyError(api)


def exc_name(f, e):
    """canonical class: ffi.error, else the nearest of the classes the property names (UnicodeEncodeError is a
    ValueError), else the class itself; `cls` keeps the real name"""
    if isinstance(e, f.error):
        return "ffi.error"
    for k in (TypeError, ValueError, AttributeError, OverflowError, MemoryError):
        if isinstance(e, k):
            return k.__name__
    return type(e).__name__


def do_ctype(cases, progress, markers=False, base=0):
    import _cffi_backend
    res = []
    ffi = _cffi_backend.FFI()
    # a compiled-style FFI with some declared names, so that identifiers resolve: built through a module
    ffis, libs = [ffi], [None]
    try:
        # (API mode: loading an out-of-line ABI module would go through cdlopen.c, which is not this property's code)
        decls = ("typedef struct foo_s { int a; short b[3]; } foo_t; typedef int (*fn_t)(int, ...); "
                 "enum e1 { AA, BB }; union u1 { int x; char y; }; typedef unsigned char uint8; ")
        extra = "\n#define C30_CONST 42\nstatic const int c30_k; int c30_fn(int); extern int c30_var;"
        f0 = cffi.FFI()
        f0.cdef(decls + "struct opaque;" + extra)
        f0.set_source("_c30_mod", decls + "struct opaque;\n#define C30_CONST 42\n#define c30_k 7\n"
                      "static int c30_fn(int x) { return x; }\nint c30_var = 3;")
        sys.path.insert(0, os.environ["VERIF_WORK"])
        import glob
        if not glob.glob(os.path.join(os.environ["VERIF_WORK"], "_c30_mod*.so")):
            f0.compile(tmpdir=os.environ["VERIF_WORK"])
        import importlib
        mod = importlib.import_module("_c30_mod")
        ffis.append(mod.ffi)
        libs.append(mod.lib)
        libs[0] = mod.lib
    except Exception as e:
        return dict(setup_error="%s: %s" % (type(e).__name__, e))
    with open(progress, "w") as pf:
        for i, c in enumerate(cases):
            pf.seek(0)
            pf.write("%d\n" % i)
            pf.flush()
            if markers:
                sys.stderr.write("@@C30 %d\n" % (base + i))
                sys.stderr.flush()
            f = ffis[c.get("ffi", 0) % len(ffis)]
            try:
                arg = build_arg(c)
                r = call_api(f, libs[c.get("ffi", 0) % len(ffis)], c.get("api", "typeof"), arg)
                res.append(dict(exc=None, cname=getattr(r, "cname", None)))
            except Exception as e:
                res.append(dict(exc=exc_name(f, e), cls=type(e).__name__, msg=str(e)[:120].encode("ascii", "replace").decode()))
    return res


def do_extpy(cases):
    """cparser._preprocess_extern_python on the text itself (no other pre-processing stage)"""
    res = []
    for c in cases:
        try:
            res.append(dict(exc=None, out=cparser._preprocess_extern_python(c["text"])))
        except BaseException as e:
            res.append(dict(exc=type(e).__name__, out=""))
    return res


def do_re(cases):
    return [cparser._r_int_literal.match(c["text"]) is not None for c in cases]


def main(payload):
    if payload["op"] == "py":
        return dict(results=do_py(payload["cases"]))
    if payload["op"] == "ctype":
        return dict(results=do_ctype(payload["cases"], payload["progress"], payload.get("markers", False),
                                      payload.get("base", 0)))
    if payload["op"] == "extpy":
        return dict(results=do_extpy(payload["cases"]))
    return dict(results=do_re(payload["cases"]))


worker_main(main)
