"""C30 worker (scratch copy of cffi; the ctype op runs under the ASan+UBSan backend).

op=py   : texts through FFI().cdef / FFI().typeof of the in-line (Python) front end; exception class and origin
op=ctype: strings through typeof() of a compiled-style FFI (_cffi_backend.FFI): the C parser parse_c_type.c
op=re   : strings through cparser._r_int_literal
"""
import os
import sys
import traceback
import warnings

warnings.simplefilter("ignore")

import cffi
from cffi import cparser
from lib.vlib import worker_main


def origin(e):
    tb = traceback.extract_tb(e.__traceback__)
    frames = [(os.path.basename(os.path.dirname(f.filename)) + "/" + os.path.basename(f.filename), f.name) for f in tb]
    inner = frames[-1] if frames else ("?", "?")
    in_pycparser = any(f[0].startswith("pycparser/") for f in frames)
    # innermost frame that belongs to cffi
    cf = [f for f in frames if f[0].startswith("cffi/")]
    return dict(inner="%s:%s" % inner, cffi_frame="%s:%s" % cf[-1] if cf else None, pycparser=in_pycparser)


def do_py(cases):
    res = []
    for c in cases:
        try:
            ffi = cffi.FFI()
            if c["api"] == "cdef":
                ffi.cdef(c["text"])
            else:
                ffi.typeof(c["text"])
            res.append(dict(exc=None))
        except Exception as e:
            d = dict(exc=type(e).__name__, msg=str(e)[:160])
            d.update(origin(e))
            res.append(d)
    return res


def do_ctype(cases, progress, markers=False):
    import _cffi_backend
    res = []
    ffi = _cffi_backend.FFI()
    # a compiled-style FFI with some declared names, so that identifiers resolve: built through a module
    ffis = [ffi]
    try:
        # (API mode: loading an out-of-line ABI module would go through cdlopen.c, which is not this property's code)
        decls = ("typedef struct foo_s { int a; short b[3]; } foo_t; typedef int (*fn_t)(int, ...); "
                 "enum e1 { AA, BB }; union u1 { int x; char y; }; typedef unsigned char uint8; ")
        f0 = cffi.FFI()
        f0.cdef(decls + "struct opaque;")
        f0.set_source("_c30_mod", decls + "struct opaque;")
        sys.path.insert(0, os.environ["VERIF_WORK"])
        import glob
        if not glob.glob(os.path.join(os.environ["VERIF_WORK"], "_c30_mod*.so")):
            f0.compile(tmpdir=os.environ["VERIF_WORK"])
        import importlib
        mod = importlib.import_module("_c30_mod")
        ffis.append(mod.ffi)
    except Exception as e:
        return dict(setup_error="%s: %s" % (type(e).__name__, e))
    with open(progress, "w") as pf:
        for i, c in enumerate(cases):
            pf.seek(0)
            pf.write("%d\n" % i)
            pf.flush()
            if markers:
                sys.stderr.write("@@C30 %d\n" % i)
                sys.stderr.flush()
            s = c["text"]
            arg = s.encode("latin-1") if c.get("bytes") else s
            f = ffis[c.get("ffi", 0) % len(ffis)]
            try:
                ct = f.typeof(arg)
                res.append(dict(exc=None, cname=ct.cname))
            except Exception as e:
                res.append(dict(exc="ffi.error" if type(e) is f.error else type(e).__name__, msg=str(e)[:120]))
    return res


def do_re(cases):
    return [cparser._r_int_literal.match(c["text"]) is not None for c in cases]


def main(payload):
    if payload["op"] == "py":
        return dict(results=do_py(payload["cases"]))
    if payload["op"] == "ctype":
        return dict(results=do_ctype(payload["cases"], payload["progress"], payload.get("markers", False)))
    return dict(results=do_re(payload["cases"]))


worker_main(main)
