"""C34 worker (runs inside the scratch build of cffi).

inline cases : executes cdef / include operations on fresh in-line FFI objects; around every include it
               snapshots the parser state of both FFIs (object identities canonicalised to small numbers) and
               evaluates the public predicate (typeof identity, constant values through the including FFI).
ool cases    : builds the FFIs, emits out-of-line ABI modules that import each other, imports them, decodes
               the tables of the generated files (the model's world) and answers lookup queries by identity.
api cases    : same with compiled API-mode modules (thorough tier).
No judgement here."""
import ast
import importlib
import os
import sys

import cffi
from lib.vlib import worker_main

F_UNION, F_EXTERNAL = 0x01, 0x08
OP_ENUM, OP_CONSTANT_INT = 11, 31


class Ids(object):
    def __init__(self):
        self.keep, self.num, self.classes = [], {}, {}

    def cls(self):
        """identity number -> equality-class number (model types other than struct/union/enum compare structurally)"""
        out = []
        for o in self.keep:
            out.append([self.num[id(o)], self.classes.setdefault(o, len(self.classes) + 1)])
        return out

    def __call__(self, obj):
        k = id(obj)
        if k not in self.num:
            self.num[k] = len(self.num) + 1
            self.keep.append(obj)
        return self.num[k]


def snapshot(ffi, ids):
    p = ffi._parser
    return dict(decls=[[n, ids(tp), int(q)] for n, (tp, q) in p._declarations.items()],
                consts=[[k, int(v)] for k, v in p._int_constants.items()],
                incl=sorted(ids(o) for o in p._included_declarations),
                nincluded=len(ffi._included_ffis))


def exc_name(e):
    if isinstance(e, cffi.FFIError) or type(e).__name__ == "error":     # cffi.FFIError / _cffi_backend.FFI.error
        return "FFIError"
    return type(e).__name__


def type_string(name):
    kind, ident = name.split(" ", 1)
    if kind == "typedef":
        return ident
    if kind in ("struct", "union", "enum"):
        return name
    return None


def predicate_after_include(fi, fj, lib_cache):
    """public view: every typedef/struct/union/enum of fj resolves through fi to the same ctype object,
    every integer constant to the same value"""
    bad = []
    for name in list(fj._parser._declarations):
        ts = type_string(name)
        if ts is None or "$" in ts:
            continue
        try:
            tj = fj.typeof(ts)
        except Exception as e:      # not a usable type in the included FFI itself (e.g. partial): skip
            continue
        try:
            ti = fi.typeof(ts)
        except Exception as e:
            bad.append("%s: typeof through the including FFI raises %s" % (ts, exc_name(e)))
            continue
        if ti is not tj:
            bad.append("%s: different ctype objects" % ts)
    consts = dict(fj._parser._int_constants)
    if consts:
        try:
            lib = fi.dlopen(None)
            for k, v in consts.items():
                got = getattr(lib, k)
                if got != v:
                    bad.append("constant %s = %r through the including FFI, %r in the included one" % (k, got, v))
        except Exception as e:
            bad.append("constants through the including FFI: %s" % exc_name(e))
    return bad


def run_inline(case):
    ids = Ids()
    ffis = [cffi.FFI() for _ in range(case["nffi"])]
    steps, errors = [], []
    for op in case["ops"]:
        if op[0] == "cdef":
            try:
                ffis[op[1]].cdef(op[2])
            except Exception as e:
                errors.append("cdef %d: %s: %s" % (op[1], exc_name(e), str(e)[:200]))
        elif op[0] == "include":
            i, j = op[1], op[2]
            before, other = snapshot(ffis[i], ids), snapshot(ffis[j], ids)
            exc = None
            try:
                ffis[i].include(ffis[j])
            except Exception as e:
                exc = exc_name(e)
            after = snapshot(ffis[i], ids)
            bad = predicate_after_include(ffis[i], ffis[j], None) if exc is None else []
            cls = dict(ids.cls())
            after["incl_classes"] = sorted(set(cls[o] for o in after["incl"]))
            steps.append(dict(i=i, j=j, before=before, other=other, after=after, exc=exc, bad=bad,
                              cls=sorted(cls.items())))
    # field types of later declarations are the included objects
    uses = []
    for u in case.get("uses", []):
        try:
            t = ffis[u["ffi"]].typeof(u["struct"])
            ft = dict(t.fields)[u["field"]].type
            want = ffis[u["origin"]].typeof(u["type"])
            uses.append(ft is want)
        except Exception as e:
            uses.append("%s: %s" % (exc_name(e), str(e)[:200]))
    return dict(steps=steps, errors=errors, uses=uses)


# ---------------------------------------------------------------- out-of-line modules

def build_ffis(case):
    ffis = []
    for k, m in enumerate(case["mods"]):
        f = cffi.FFI()
        for j in m["includes"]:
            f.include(ffis[j])
        f.cdef(m["cdef"])
        ffis.append(f)
    return ffis


def decode_module(path):
    """the model's view of one generated ABI module: struct_unions (name, union, external), globals, includes"""
    tree = ast.parse(open(path).read())
    call = None
    for node in ast.walk(tree):
        if isinstance(node, ast.Call) and isinstance(node.func, ast.Attribute) and node.func.attr == "FFI":
            call = node
    kw = {k.arg: k.value for k in call.keywords}
    structs, globs, includes = [], [], []
    if "_struct_unions" in kw:
        for entry in ast.literal_eval(kw["_struct_unions"]):
            head = entry[0]
            flags = int.from_bytes(head[4:8], "big")
            structs.append([head[8:].decode(), bool(flags & F_UNION), bool(flags & F_EXTERNAL)])
    if "_globals" in kw:
        g = ast.literal_eval(kw["_globals"])
        for a, b in zip(g[0::2], g[1::2]):
            op = a[3]
            globs.append([a[4:].decode(), int(b) if op in (OP_ENUM, OP_CONSTANT_INT) else None])
    if "_includes" in kw:
        includes = [e.id for e in kw["_includes"].elts]
    imports = {}
    for node in tree.body:
        if isinstance(node, ast.ImportFrom):
            for a in node.names:
                imports[a.asname or a.name] = node.module
    return dict(structs=structs, globals=globs, includes=[imports[x] for x in includes])


def answer_identity(obj, owners):
    for j, o in owners:
        if o is obj:
            return ["owner", j]
    return ["owner", -1]


def run_ool(case, idx):
    work = os.environ["VERIF_WORK"]
    d = os.path.join(work, "c34_%d" % idx)
    os.makedirs(d, exist_ok=True)
    sys.path.insert(0, d)
    try:
        ffis = build_ffis(case)
        names = ["c34_%d_m%d" % (idx, k) for k in range(len(ffis))]
        for f, n in zip(ffis, names):
            f.set_source(n, None)
        for f, n in zip(ffis, names):
            f.emit_python_code(os.path.join(d, n + ".py"))
        mods = [importlib.import_module(n) for n in names]
        world = []
        for n in names:
            w = decode_module(os.path.join(d, n + ".py"))
            w["includes"] = [names.index(x) for x in w["includes"]]
            w["has_lib"] = False
            world.append(w)
        libs = [m.ffi.dlopen(None) for m in mods]
        answers = []
        for q in case["queries"]:
            m = q["m"]
            try:
                if q["q"] == "struct":
                    ts = ("union " if q["union"] else "struct ") + q["name"]
                    obj = mods[m].ffi.typeof(ts)
                    owners = []
                    for j in range(len(mods)):
                        if any(s[0] == q["name"] and s[1] == q["union"] and not s[2] for s in world[j]["structs"]):
                            owners.append((j, mods[j].ffi.typeof(ts)))
                    answers.append(answer_identity(obj, owners))
                elif q["q"] == "const":
                    answers.append(["val", int(mods[m].ffi.integer_const(q["name"]))])
                elif q["q"] == "lib":
                    answers.append(["val", int(getattr(libs[m], q["name"]))])
            except Exception as e:
                answers.append(["err", exc_name(e)])
        # public predicate on every include edge
        bad = []
        for k, m in enumerate(case["mods"]):
            for j in m["includes"]:
                for kind, ts in case["mods"][j]["types"]:
                    try:
                        a, b = mods[k].ffi.typeof(ts), mods[j].ffi.typeof(ts)
                        if a is not b:
                            bad.append(dict(kind=kind, type=ts, m=k, inc=j, what="different ctype objects"))
                    except Exception as e:
                        bad.append(dict(kind=kind, type=ts, m=k, inc=j, what="raises " + exc_name(e)))
                for name, val in case["mods"][j]["consts"]:
                    if name.startswith("dup"):
                        continue    # deliberately clashes with a function of the same name elsewhere: lookups only
                    try:
                        got = mods[k].ffi.integer_const(name)
                        if got != val:
                            bad.append(dict(kind="const", type=name, m=k, inc=j, what="value %r != %r" % (got, val)))
                    except Exception as e:
                        bad.append(dict(kind="const", type=name, m=k, inc=j, what="raises " + exc_name(e)))
        uses = []
        for u in case.get("uses", []):
            try:
                t = mods[u["ffi"]].ffi.typeof(u["struct"])
                ft = dict(t.fields)[u["field"]].type
                uses.append(ft is mods[u["origin"]].ffi.typeof(u["type"]))
            except Exception as e:
                uses.append("%s: %s" % (exc_name(e), str(e)[:200]))
        return dict(world=world, answers=answers, bad=bad, uses=uses)
    finally:
        sys.path.remove(d)


def run_api(case, idx):
    """compiled modules: m_k includes m_{includes}; functions/globals/constants reachable through lib"""
    work = os.environ["VERIF_WORK"]
    d = os.path.join(work, "c34api_%d" % idx)
    os.makedirs(d, exist_ok=True)
    sys.path.insert(0, d)
    try:
        ffis = build_ffis(case)
        names = ["c34api_%d_m%d" % (idx, k) for k in range(len(ffis))]
        for f, n, m in zip(ffis, names, case["mods"]):
            with open(os.path.join(d, n + ".h"), "w") as h:
                h.write("#ifndef H_%s\n#define H_%s\n" % (n, n)
                        + "\n".join(['#include "%s.h"' % names[j] for j in m["includes"]]) + "\n" + m["cheader"]
                        + "\n#endif\n")
            f.set_source(n, '#include "%s.h"\n' % n + m["cbody"], include_dirs=[d])
        # the C sources come from the code generator under test; the C compiler is run on them directly, all
        # modules in parallel (ffi.compile() chdir()s and cannot run concurrently in one process)
        import subprocess
        import sysconfig
        procs = []
        for f, n in zip(ffis, names):
            f.emit_c_code(os.path.join(d, n + ".c"))
            so = os.path.join(d, n + sysconfig.get_config_var("EXT_SUFFIX"))
            procs.append((n, subprocess.Popen(
                ["gcc", "-w", "-O0", "-fPIC", "-shared", "-I" + sysconfig.get_paths()["include"], "-I" + d,
                 os.path.join(d, n + ".c"), "-o", so], stdout=subprocess.PIPE, stderr=subprocess.STDOUT, text=True)))
        for n, pr in procs:
            out, _ = pr.communicate()
            if pr.returncode:
                raise RuntimeError("gcc failed on %s: %s" % (n, out[-800:]))
        mods = [importlib.import_module(n) for n in names]
        answers = []
        for q in case["queries"]:
            m = q["m"]
            try:
                if q["q"] == "struct":
                    ts = ("union " if q["union"] else "struct ") + q["name"]
                    obj = mods[m].ffi.typeof(ts)
                    owners = [(j, mods[j].ffi.typeof(ts)) for j in q["definers"]]
                    answers.append(answer_identity(obj, owners))
                elif q["q"] == "const":
                    answers.append(["val", int(mods[m].ffi.integer_const(q["name"]))])
                elif q["q"] == "lib":
                    obj = getattr(mods[m].lib, q["name"])
                    if isinstance(obj, int):
                        answers.append(["val", int(obj)])
                    else:
                        owners = [(j, getattr(mods[j].lib, q["name"])) for j in q["definers"]]
                        a = answer_identity(obj, owners)
                        if isinstance(obj, float):
                            a.append(obj)
                        answers.append(a)
                elif q["q"] == "libvar":        # global variable: same address through both libs
                    a = mods[m].ffi.addressof(mods[m].lib, q["name"])
                    owners = [j for j in q["definers"]
                              if mods[j].ffi.addressof(mods[j].lib, q["name"]) == a]
                    ok = False
                    if owners:
                        j = owners[0]
                        before = getattr(mods[j].lib, q["name"])
                        ok = getattr(mods[m].lib, q["name"]) == before                 # read
                        setattr(mods[m].lib, q["name"], q["write"])                    # write through the including lib
                        ok = ok and getattr(mods[j].lib, q["name"]) == q["write"] and a[0] == q["write"]
                        setattr(mods[j].lib, q["name"], before)
                        ok = ok and getattr(mods[m].lib, q["name"]) == before
                    answers.append(["owner", owners[0] if owners else -1, bool(ok)])
            except Exception as e:
                answers.append(["err", exc_name(e)])
        bad = []
        for k, m in enumerate(case["mods"]):
            for j in m["includes"]:
                for kind, ts in case["mods"][j]["types"]:
                    try:
                        if mods[k].ffi.typeof(ts) is not mods[j].ffi.typeof(ts):
                            bad.append(dict(kind=kind, type=ts, m=k, inc=j, what="different ctype objects"))
                    except Exception as e:
                        bad.append(dict(kind=kind, type=ts, m=k, inc=j, what="raises " + exc_name(e)))
        # behaviour: a struct made through the including ffi is accepted by the included module's function
        calls = []
        for c in case.get("calls", []):
            try:
                p = mods[c["m"]].ffi.new(c["type"] + " *")
                setattr(p, c["field"], c["value"])
                calls.append(int(getattr(mods[c["m"]].lib, c["fn"])(p)))
            except Exception as e:
                calls.append("%s: %s" % (exc_name(e), str(e)[:200]))
        return dict(answers=answers, bad=bad, calls=calls)
    finally:
        sys.path.remove(d)


def one(case, idx):
    try:
        if case["kind"] == "inline":
            return run_inline(case)
        if case["kind"] == "ool":
            return run_ool(case, idx)
        if case["kind"] == "api":
            return run_api(case, idx)
        raise ValueError(case["kind"])
    except Exception as e:
        import traceback
        return dict(crash="%s: %s" % (type(e).__name__, traceback.format_exc()[-1500:]))


def main(payload):
    return dict(results=[one(c, payload.get("base", 0) + i) for i, c in enumerate(payload["cases"])])


worker_main(main)
