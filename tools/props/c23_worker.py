"""C23 worker (runs with the scratch copy of cffi).
kinds
  emit   build FFIs from a cdef text, emit C and Python sources several times; return the texts' digests
  write  run ffi.emit_c_code / emit_python_code into a target prepared with `old` content, with every I/O call on
         the target and its temporary intercepted: clean run (trace, result, stat before/after) and one forked
         child per crash point k (killed with os._exit at the k-th I/O call, before it / after it with a flush)."""
import builtins
import hashlib
import io
import json
import os
import sys
import warnings

import cffi
from lib.vlib import worker_main

assert os.path.dirname(cffi.__file__).startswith(os.environ["VERIF_SCRATCH"]), cffi.__file__
warnings.simplefilter("ignore")


COV_FILES = {"recompiler.py": "Recompiler", "cffi_opcode.py": "Opcode", "model.py": "ModelPy", "cparser.py": "CParser"}
COV_HITS = set()
INCLUDED = None


def tracer(frame, event, arg):
    tag = COV_FILES.get(os.path.basename(frame.f_code.co_filename))
    if tag is None or os.path.dirname(frame.f_code.co_filename) != os.path.dirname(cffi.__file__):
        return None

    def local(frame, event, arg):
        if event == "line":
            COV_HITS.add((tag, frame.f_lineno))
        return local
    COV_HITS.add((tag, frame.f_lineno))
    return local


def make_ffi(cdef, name, preamble):
    ffi = cffi.FFI()
    if INCLUDED:
        base = cffi.FFI()
        base.cdef(INCLUDED)
        base.set_source("_c23_base", None if preamble is None else "")
        ffi.include(base)
    if preamble is None:        # ABI mode: extern "Python" is not allowed
        cdef = "".join(l for l in cdef.splitlines(True) if not l.startswith('extern "Python"'))
    ffi.cdef(cdef)
    ffi.set_source(name, preamble)
    return ffi


def emit_text(ffi, mode):
    f = io.StringIO()
    (ffi.emit_c_code if mode == "c" else ffi.emit_python_code)(f)
    return f.getvalue()


def do_emit(c):
    global INCLUDED
    INCLUDED = c.get("included")
    try:
        if c.get("cov"):
            sys.settrace(tracer)
        return do_emit1(c)
    finally:
        sys.settrace(None)
        INCLUDED = None


def do_emit1(c):
    out = {}
    for mode in ("c", "py"):
        pre = c["preamble"] if mode == "c" else None
        ffi = make_ffi(c["cdef"], c["name"], pre)
        t1 = emit_text(ffi, mode)
        t2 = emit_text(ffi, mode)                                   # repeated call, same object
        t3 = emit_text(make_ffi(c["cdef"], c["name"], pre), mode)   # fresh object, same process
        out[mode] = dict(sha=[hashlib.sha256(t.encode("utf-8", "surrogatepass")).hexdigest() for t in (t1, t2, t3)],
                         text=t1 if c.get("want_text") else None, size=len(t1))
    return out


class Crash:
    def __init__(self, target, k, after):
        self.target, self.k, self.after = target, k, after
        self.n = 0
        self.log = []
        self.open_files = []

    def cls(self, path):
        path = os.fspath(path) if not isinstance(path, int) else path
        if path == self.target:
            return "Target"
        if isinstance(path, str) and path.startswith(self.target + ".~"):
            return "Tmp"
        return None

    def event(self, ev, perform):
        self.n += 1
        self.log.append(ev)
        if self.k is not None and self.n == self.k and not self.after:
            os._exit(77)
        try:
            return perform()
        finally:
            if self.k is not None and self.n == self.k and self.after:
                for f in self.open_files:
                    try:
                        f.flush()
                    except Exception:
                        pass
                os._exit(77)


class FileProxy:
    def __init__(self, crash, f, cls):
        self._c, self._f, self._cls = crash, f, cls
        crash.open_files.append(f)

    def read(self, *a):
        return self._c.event(["read", self._cls, a[0] if a else -1], lambda: self._f.read(*a))

    def write(self, data):
        return self._c.event(["write", self._cls, data], lambda: self._f.write(data))

    def close(self):
        def go():
            r = self._f.close()
            if self._f in self._c.open_files:
                self._c.open_files.remove(self._f)
            return r
        return self._c.event(["close", self._cls], go)

    def __enter__(self):
        return self

    def __exit__(self, *a):
        self.close()

    def __getattr__(self, name):
        raise AttributeError("C23 harness: unexpected file method %s" % name)


def instrumented_run(c, target, k, after, c_file=None):
    """runs in the child (or in-process for the clean run when k is None)"""
    crash = Crash(target, k, after)
    real_open, real_rename, real_unlink = builtins.open, os.rename, os.unlink

    def my_open(path, mode="r", *a, **kw):
        cls = crash.cls(path) if isinstance(path, (str, bytes, os.PathLike)) else None
        if cls is None:
            return real_open(path, mode, *a, **kw)
        ev = ["open_" + mode, cls] + ([repr(a), repr(kw)] if a or kw else [])
        return FileProxy(crash, crash.event(ev, lambda: real_open(path, mode, *a, **kw)), cls)

    def my_rename(src, dst, **kw):
        return crash.event(["rename", crash.cls(src), crash.cls(dst)], lambda: real_rename(src, dst, **kw))

    def my_unlink(path, **kw):
        return crash.event(["unlink", crash.cls(path)], lambda: real_unlink(path, **kw))
    builtins.open, os.rename, os.unlink = my_open, my_rename, my_unlink
    try:
        ffi = make_ffi(c["cdef"], c["name"], c["preamble"] if c["mode"] == "c" else None)
        try:
            # what emit_c_code / emit_python_code do (api.py:679), keeping recompile()'s `updated` result
            from cffi.recompiler import recompile
            module_name, source, source_extension, kwds = ffi._assigned_source
            res = recompile(ffi, module_name, source, c_file=c_file or target, call_c_compiler=False,
                            uses_ffiplatform=False, **kwds)
            res = {"value": res[1]}
        except BaseException as e:
            res = {"exc": type(e).__name__}
    finally:
        builtins.open, os.rename, os.unlink = real_open, real_rename, real_unlink
    return crash.log, res


def read_bytes(path):
    try:
        with open(path, "rb") as f:
            return f.read()
    except FileNotFoundError:
        return None


def do_write(c, idx):
    work = os.path.join(os.environ["VERIF_WORK"], "c23w%d" % idx)
    os.makedirs(work, exist_ok=True)
    target = os.path.join(work, "out_%s.%s" % (c["name"], "c" if c["mode"] == "c" else "py"))
    ffi = make_ffi(c["cdef"], c["name"], c["preamble"] if c["mode"] == "c" else None)
    new = emit_text(ffi, c["mode"])
    newb = new.encode("utf-8")
    kind = c["old"]
    if kind == "absent":
        oldb = None
    elif kind == "same":
        oldb = newb
    elif kind == "different":
        oldb = b"/* something else */\n" + newb[: len(newb) // 2]
    elif kind == "prefix":
        oldb = newb[:-1]
    elif kind == "longer":
        oldb = newb + b"x"
    elif kind == "crlf":
        oldb = newb.replace(b"\n", b"\r\n")
    elif kind == "empty":
        oldb = b""
    else:
        raise ValueError(kind)

    def reset():
        for fn in os.listdir(work):
            os.unlink(os.path.join(work, fn))
        if oldb is not None:
            with open(target, "wb") as f:
                f.write(oldb)
            os.utime(target, ns=(10 ** 18, 10 ** 18))

    def stat():
        try:
            st = os.stat(target)
            return [st.st_ino, st.st_mtime_ns]
        except FileNotFoundError:
            return None
    out = dict(new=new if c.get("want_text") else None, new_len=len(new), old_hex=None if oldb is None else
               (oldb.hex() if c.get("want_text") else None), old_equals_new=oldb == newb)
    # clean run
    reset()
    st0 = stat()
    log, res = instrumented_run(c, target, None, False)
    out["trace"] = log if c.get("want_text") else [[e[0], e[1]] + ([len(e[2])] if e[0] == "write" else e[2:]) for e in log]
    out["result"] = res
    out["stat_unchanged"] = stat() == st0
    after = read_bytes(target)
    out["final"] = "new" if after == newb else "old" if after == oldb else "other"
    out["leftovers"] = sorted(fn for fn in os.listdir(work) if os.path.join(work, fn) != target)
    # the file-like branch (recompiler.py:1440-1442) with the path target left as it is: Model.make_source says no
    # I/O call on the path, result True, and the text that the path run has just compared / written
    sio = io.StringIO()
    st1, b1 = stat(), read_bytes(target)
    logf, resf = instrumented_run(c, target, None, False, c_file=sio)
    out["filelike"] = dict(ops=[e[0] for e in logf], result=resf, same_text=sio.getvalue() == new,
                           target_untouched=(stat(), read_bytes(target)) == (st1, b1))
    # a second regeneration right after must find the file up to date
    log2, res2 = instrumented_run(c, target, None, False)
    out["second"] = dict(result=res2, ops=[e[0] for e in log2])
    # crash points
    crashes = []
    n = len(log)
    for after_flag in (False, True):
        for k in range(1, n + 1):
            reset()
            pid = os.fork()
            if pid == 0:
                try:
                    instrumented_run(c, target, k, after_flag)
                finally:
                    os._exit(0)
            _, status = os.waitpid(pid, 0)
            code = os.waitstatus_to_exitcode(status)
            got = read_bytes(target)
            state = "new" if got == newb else "old" if got == oldb else "other"
            if oldb == newb and state == "new":
                state = "old"
            crashes.append(dict(k=k, after=after_flag, exit=code, state=state,
                                detail=None if state != "other" else (None if got is None else got[:200].hex()),
                                got_len=None if got is None else len(got)))
    out["crashes"] = crashes
    for fn in os.listdir(work):
        os.unlink(os.path.join(work, fn))
    os.rmdir(work)
    return out


def do_shared(c, idx):
    """several FFI objects in ONE process, some including others: every one is generated before and after being
    included (and after unrelated FFIs were built); base1 is also written to a file before the includes and
    regenerated into it afterwards (must be found up to date).  fresh_only: only base1, nothing includes it."""
    from cffi.recompiler import recompile
    work = os.path.join(os.environ["VERIF_WORK"], "c23s%d" % idx)
    os.makedirs(work, exist_ok=True)
    out = {}
    for mode in ("c", "py"):
        def mk(name, cdef, preamble, includes=()):
            ffi = cffi.FFI()
            for b in includes:
                ffi.include(b)
            if mode == "py":
                cdef = "".join(l for l in cdef.splitlines(True) if not l.startswith('extern "Python"'))
            ffi.cdef(cdef)
            ffi.set_source(name, preamble if mode == "c" else None)
            return ffi
        texts = {}

        def gen(label, ffi, step):
            texts.setdefault(label, []).append((step, emit_text(ffi, mode)))

        def stat(path):
            st = os.stat(path)
            return [st.st_ino, st.st_mtime_ns]

        def to_file(ffi, path):
            module_name, source, source_extension, kwds = ffi._assigned_source
            return recompile(ffi, module_name, source, c_file=path, call_c_compiler=False, uses_ffiplatform=False, **kwds)[1]
        target = os.path.join(work, "b1." + mode)
        if os.path.exists(target):
            os.unlink(target)
        base1 = mk("_c23_b1", c["base1"], c["preamble"])
        up = dict(first=to_file(base1, target))
        os.utime(target, ns=(10 ** 18, 10 ** 18))
        st0, b0 = stat(target), read_bytes(target)
        gen("base1", base1, "before anything includes it")
        if not c.get("fresh_only"):
            mid = mk("_c23_mid", c["mid"], "", [base1])
            gen("mid", mid, "before anything includes it")
            gen("base1", base1, "after mid.include(base1)")
            up["again"] = to_file(base1, target)
            up["stat_unchanged"] = stat(target) == st0
            up["bytes_unchanged"] = read_bytes(target) == b0
            base2 = mk("_c23_b2", c["base2"], "")
            gen("base2", base2, "before anything includes it")
            top = mk("_c23_top", c["top"], "", [mid, base2])
            gen("top", top, "first")
            gen("mid", mid, "after top.include(mid)")
            gen("base2", base2, "after top.include(base2)")
            gen("base1", base1, "after top.include(mid) (mid includes base1)")
            gen("top", top, "again")
            gen("base1", mk("_c23_b1", c["base1"], c["preamble"]), "a new FFI object with the same declarations, after the includes")
            gen("base2", mk("_c23_b2", c["base2"], ""), "a new FFI object with the same declarations, after the includes")
        os.unlink(target)
        res = {}
        for label, lst in texts.items():
            ref = lst[0][1]
            res[label] = [dict(step=step, sha=hashlib.sha256(t.encode("utf-8", "surrogatepass")).hexdigest(), size=len(t),
                               diff=None if t == ref else first_diff(ref, t)) for step, t in lst]
        out[mode] = dict(texts=res, uptodate=up)
    os.rmdir(work)
    return out


def first_diff(a, b):
    la, lb = a.splitlines(), b.splitlines()
    for i, (x, y) in enumerate(zip(la, lb)):
        if x != y:
            return "line %d: %r vs %r" % (i + 1, x[:110], y[:110])
    return "%d vs %d lines" % (len(la), len(lb))


def main(payload):
    results = []
    for i, c in enumerate(payload["cases"]):
        try:
            results.append(do_emit(c) if c["kind"] == "emit" else do_shared(c, i) if c["kind"] == "shared" else do_write(c, i))
        except cffi.CDefError as e:
            results.append(dict(cdef_error=str(e)[:300]))
    return dict(results=results, cov=sorted(COV_HITS))


if __name__ == "__main__":
    worker_main(main)
