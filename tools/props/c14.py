"""C14 — callbacks and extern "Python" pass values exactly and contain errors.

Tie A (regeneration): coq/C14/Gen.v is rebuilt from recompiler._extern_python_decl by the shape-matching driver
tools/props/c14_regen.py on every run and the buffer theorems are re-checked against it.
Tie B (correspondence): random signatures x constant argument values x {normal, raising, bad-return} bodies x
{no error, error=} x {no onerror, onerror returning None / a value / a bad value / raising}, for ffi.callback()
(called from compiled C through the function pointer; for results narrower than int also through an `unsigned int`
typed pointer to observe the sign/zero extension in EAX) and for extern "Python"/def_extern (called from compiled C).
Property predicate: the Python function received exactly the C argument values; C received exactly the converted
return value / the error value / onerror's value; nothing escaped; reports only through sys.unraisablehook.
"""
import ctypes
import os
import struct

from lib import vlib
from lib.vlib import clist, cbool
import props.c13_common as cc
from props import c14_regen

ID = "C14"
COMPLEX = {'float _Complex': 8, 'double _Complex': 16}


def regen(ctx):
    c14_regen.regen(ctx, vlib.ROOT, vlib.REPO)


# ------------------------------------------------------------------ types and values

def ckind(t):
    if t in cc.UNIONS:
        return 'union'
    if t in COMPLEX:
        return 'complex'
    if t == 'void':
        return 'void'
    return cc.kind(t)


def csize(t):
    if t in cc.UNIONS:
        return cc.UNIONS[t][2]
    if t in COMPLEX:
        return COMPLEX[t]
    if t == 'void':
        return 0
    return cc.sizeof(t)


def d2hex(x):
    return struct.pack("<d", x).hex()


def hex2d(h):
    return struct.unpack("<d", bytes.fromhex(h))[0]


def irange(t):
    s, sg = cc.INTS[t]
    return (-(1 << (8 * s - 1)), (1 << (8 * s - 1)) - 1) if sg else (0, (1 << (8 * s)) - 1)


FVALS = [0.0, 1.5, -2.25, 16777216.0, -0.0, 1.0, -1.0, 0.5, 1e10 if False else 1024.0, -3.0]
ARGT = ['int8_t', 'uint8_t', 'int16_t', 'uint16_t', 'int32_t', 'uint32_t', 'int64_t', 'uint64_t', 'int', 'unsigned int',
        'long', 'unsigned long', 'short', 'signed char', 'unsigned char', 'size_t', '_Bool', 'char', 'wchar_t', 'char16_t',
        'float', 'double', 'long double', 'void *', 'int *', 'struct s1', 'struct s2', 'struct s3', 'struct s4', 'struct s5',
        'struct s6']


def gen_const(rng, t):
    """a C value of type t, canonical form"""
    k = ckind(t)
    if k == 'int':
        lo, hi = irange(t)
        return rng.choice([lo, hi, 0, 1, -1 if lo < 0 else hi - 1, rng.randint(lo, hi), rng.randint(lo, hi)])
    if k == 'bool':
        return rng.choice([0, 1])
    if k == 'char':
        s = cc.CHARS[t]
        return rng.choice([0, 65, 255, 200, 127] if s == 1 else [65, 0xFFFF, 0xE9, 0x20AC] + ([0x10FFFF, 0x1F600] if t != 'char16_t' else []))
    if k == 'float':
        return d2hex(rng.choice(FVALS))
    if k == 'complex':
        return [d2hex(rng.choice(FVALS)), d2hex(rng.choice(FVALS))]
    if k == 'ptr':
        return rng.choice([None, 0, 8, 40])
    if k == 'struct':
        return [gen_const(rng, ft) for fn, ft in cc.STRUCTS[t]]
    if k == 'union':
        return gen_const(rng, cc.UNIONS[t][1])
    raise KeyError(t)


def recv_canon(t, v):
    """what the Python function must receive for the C value v of type t (worker's canon())"""
    k = ckind(t)
    if k == 'int':
        return ["int", v]
    if k == 'bool':
        return ["bool", v]
    if k == 'char':
        return ["bytes", "%02x" % v] if cc.CHARS[t] == 1 else ["str", [v]]
    if k == 'float':
        x = hex2d(v)
        if t == 'float':
            x = ctypes.c_float(x).value
        return ["ld", d2hex(x)] if t == 'long double' else ["float", d2hex(x)]
    if k == 'complex':
        re, im = hex2d(v[0]), hex2d(v[1])
        if t.startswith('float'):
            re, im = ctypes.c_float(re).value, ctypes.c_float(im).value
        return ["complex", d2hex(re), d2hex(im)]
    if k == 'ptr':
        return ["ptr", v]
    if k == 'struct':
        return ["struct", [recv_canon(ft, fv) for (fn, ft), fv in zip(cc.STRUCTS[t], v)]]
    if k == 'union':
        return ["union", recv_canon(cc.UNIONS[t][1], v)]
    raise KeyError(t)


def ret_spec(t, v):
    """a Python value (worker mkret spec) that converts to the C value v of type t"""
    k = ckind(t)
    if k == 'int':
        return ["int", v]
    if k == 'bool':
        return ["bool", v]
    if k == 'char':
        return ["bytes", "%02x" % v] if cc.CHARS[t] == 1 else ["str", [v]]
    if k == 'float':
        return ["float", v]
    if k == 'complex':
        return ["complex", v[0], v[1]]
    if k == 'ptr':
        return ["ptr", v]
    if k == 'struct':
        return ["struct", [ret_spec(ft, fv) for (fn, ft), fv in zip(cc.STRUCTS[t], v)]]
    if k == 'void':
        return ["none"]
    if k == 'union':
        return ["union", ret_spec(cc.UNIONS[t][1], v)]
    raise KeyError(t)


def x87(x):
    """little-endian 80-bit extended representation of a (normal or zero) double, padded to 16 bytes"""
    b = struct.unpack("<Q", struct.pack("<d", x))[0]
    sign, e, frac = b >> 63, (b >> 52) & 0x7ff, b & ((1 << 52) - 1)
    if e == 0 and frac == 0:
        return (sign << 79).to_bytes(10, "little") + b"\0" * 6
    assert 0 < e < 0x7ff
    v = (sign << 79) | ((e - 1023 + 16383) << 64) | (1 << 63) | (frac << 11)
    return v.to_bytes(10, "little") + b"\0" * 6


def enc(t, spec, gbuf):
    """bytes of the C object a Python return value converts to (convert_from_object), or None if it cannot"""
    k = ckind(t)
    s = csize(t)
    if k == 'void':
        return b"" if spec[0] == "none" else None
    if k == 'int':
        if spec[0] not in ("int", "bool"):
            return None
        lo, hi = irange(t)
        return (spec[1] % (1 << (8 * s))).to_bytes(s, "little") if lo <= spec[1] <= hi else None
    if k == 'bool':
        return bytes([spec[1]]) if spec[0] in ("int", "bool") and spec[1] in (0, 1) else None
    if k == 'char':
        if s == 1:
            return bytes.fromhex(spec[1]) if spec[0] == "bytes" and len(spec[1]) == 2 else None
        if spec[0] == "str" and len(spec[1]) == 1 and (s == 4 or spec[1][0] <= 0xFFFF):
            return spec[1][0].to_bytes(s, "little")
        return None
    if k == 'float':
        if spec[0] == "float":
            x = hex2d(spec[1])
        elif spec[0] in ("int", "bool") and abs(spec[1]) < (1 << 24):
            x = float(spec[1])
        else:
            return None
        if t == 'float':
            return struct.pack("<f", ctypes.c_float(x).value)
        return struct.pack("<d", x) if t == 'double' else x87(x)
    if k == 'complex':
        if spec[0] != "complex":
            return None
        re, im = hex2d(spec[1]), hex2d(spec[2])
        return struct.pack("<ff", re, im) if t.startswith('float') else struct.pack("<dd", re, im)
    if k == 'ptr':
        if spec[0] != "ptr":
            return None
        return (0 if spec[1] is None else gbuf + spec[1]).to_bytes(8, "little")
    if k == 'union':
        if spec[0] not in ("union", "unionp"):
            return None
        b = enc(cc.UNIONS[t][1], spec[1], gbuf)
        return None if b is None else b + b"\0" * (s - len(b))
    if k == 'struct' and spec[0] in ("structp", "structd"):
        # partial initializer applied to a ZEROED struct
        given = dict(zip([fn for fn, ft in cc.STRUCTS[t]], spec[1])) if spec[0] == "structp" else dict(spec[1])
        out = b""
        for fn, ft in cc.STRUCTS[t]:
            pad = (-len(out)) % cc.alignof(ft)
            fb = enc(ft, given[fn], gbuf) if fn in given else b"\0" * csize(ft)
            if fb is None:
                return None
            out += b"\0" * pad + fb
        return out + b"\0" * (s - len(out))
    if k == 'struct':
        if spec[0] != "struct":
            return None
        out = b""
        for (fn, ft), fs in zip(cc.STRUCTS[t], spec[1]):
            pad = (-len(out)) % cc.alignof(ft)
            out += b"\0" * pad + enc(ft, fs, gbuf)
        return out + b"\0" * (s - len(out))
    raise KeyError(t)


def mask(t):
    """1 for bytes of t that carry value (0 for padding, whose content is not specified)"""
    k = ckind(t)
    if t == 'long double':
        return [1] * 10 + [0] * 6
    if k == 'union':        # only the first member is specified
        n = csize(cc.UNIONS[t][1])
        return [1] * n + [0] * (csize(t) - n)
    if k == 'struct':
        out = []
        for fn, ft in cc.STRUCTS[t]:
            out += [0] * ((-len(out)) % cc.alignof(ft)) + mask(ft)
        return out + [0] * (csize(t) - len(out))
    return [1] * csize(t)


def gen_bad_ret(rng, t):
    k = ckind(t)
    if k == 'int':
        lo, hi = irange(t)
        return rng.choice([["int", hi + 1], ["int", lo - 1], ["int", 1 << 70], ["none"], ["str", [97]], ["float", d2hex(1.0)], ["obj"]])
    if k == 'bool':
        return rng.choice([["int", 2], ["int", -1], ["none"], ["str", [97]]])
    if k == 'char':
        return rng.choice([["int", 65], ["none"], ["bytes", "6162"] if cc.CHARS[t] == 1 else ["str", [97, 98]],
                           ["str", [97]] if cc.CHARS[t] == 1 else ["bytes", "61"]])
    if k == 'float':
        return rng.choice([["none"], ["str", [49]], ["obj"], ["list", []]])
    if k == 'complex':
        return rng.choice([["none"], ["str", [49]], ["obj"]])
    if k == 'ptr':
        return rng.choice([["int", 0], ["none"], ["float", d2hex(0.0)], ["str", [97]]])
    if k in ('struct', 'union'):
        return rng.choice([["int", 0], ["none"], ["str", [97]], ["obj"]])
    if k == 'void':
        return rng.choice([["int", 0], ["str", [97]], ["bool", 0], ["float", d2hex(0.0)]])
    raise KeyError(t)


def gen_sig(rng, i, allow_complex):
    nargs = rng.choice([0, 1, 1, 2, 2, 3, 4, 5, 7])
    pool = ARGT + (['float _Complex'] * 3 + sorted(cc.UNIONS) if allow_complex else [])
    args = [rng.choice(pool) for _ in range(nargs)]
    res = rng.choice(pool + ['void', 'void', 'int', 'short', 'signed char'] + (['double _Complex'] * 4 if allow_complex else []))
    return dict(args=args, res=res, consts=[gen_const(rng, t) for t in args])


def partial_error(rng, R):
    """a PARTIAL initializer for a struct/union error value: short list, dict naming some fields, or a union member"""
    if ckind(R) == 'union':
        return ["unionp", ret_spec(cc.UNIONS[R][1], gen_const(rng, cc.UNIONS[R][1]))]
    flds = cc.STRUCTS[R]
    vals = [ret_spec(ft, gen_const(rng, ft)) for fn, ft in flds]
    if rng.random() < 0.5 or len(flds) == 1:
        return ["structp", vals[:rng.randrange(0, len(flds))]]
    keep = sorted(rng.sample(range(len(flds)), rng.randrange(1, len(flds))))
    return ["structd", [[flds[i][0], vals[i]] for i in keep]]


def partial_error_scenarios(rng, sigs, si, out, count):
    """struct/union result, error= given as a partial initializer, failing body: C must receive the initializer applied
    to a zeroed object (the heap is dirtied first)"""
    sig = sigs[si]
    R = sig["res"]
    only_x = ckind(R) == 'union' or any(ckind(a) in ('union', 'complex') for a in sig["args"])
    for _ in range(count):
        path = "externpy" if only_x else rng.choice(["externpy", "callback"])
        body = ["raise"] if rng.random() < 0.6 else ["ret", gen_bad_ret(rng, R)]
        out.append(dict(id=len(out), sig=si, path=path, body=body, error=partial_error(rng, R),
                        onerror=rng.choice([["none"], ["retnone"]]), wide=False, dirty=True, fullmask=(ckind(R) == 'union')))


def gen_scenarios(rng, sigs, si, n, out):
    sig = sigs[si]
    R = sig["res"]
    has_complex = R in COMPLEX or any(a in COMPLEX for a in sig["args"]) or ckind(R) == 'union' \
        or any(ckind(a) == 'union' for a in sig["args"])          # libffi supports neither: extern "Python" only
    for _ in range(n):
        path = "externpy" if has_complex else rng.choice(["externpy", "callback"])
        r = rng.random()
        if r < 0.4:
            body = ["ret", ret_spec(R, gen_const(rng, R)) if R != 'void' else ["none"]]
        elif r < 0.7:
            body = ["raise"]
        else:
            body = ["ret", gen_bad_ret(rng, R)]
        r = rng.random()
        if R == 'void' or r < 0.4:
            error = None
        elif r < 0.93:
            error = ret_spec(R, gen_const(rng, R))
        else:
            error = gen_bad_ret(rng, R)
            if error == ["none"]:
                error = ["str", [120]]
        r = rng.random()
        if r < 0.4:
            onerror = ["none"]
        elif r < 0.55:
            onerror = ["retnone"]
        elif r < 0.75:
            onerror = ["ret", ret_spec(R, gen_const(rng, R))] if R != 'void' else ["retnone"]
        elif r < 0.87:
            onerror = ["ret", gen_bad_ret(rng, R)]
            if onerror[1] == ["none"]:
                onerror = ["ret", ["str", [121]]]
        else:
            onerror = ["raise"]
        wide = (path == "callback" and ckind(R) in ('int', 'bool', 'char') and csize(R) < 4 and rng.random() < 0.5)
        out.append(dict(id=len(out), sig=si, path=path, body=body, error=error, onerror=onerror, wide=wide))


def generate(ctx):
    rng = ctx.rng
    batches = []
    for b in range(ctx.n(1, 5)):
        sigs = [gen_sig(rng, i, True) for i in range(ctx.n(50, 90))]
        # directed: every small integer result type (widening), double _Complex / long double / struct results with
        # 0 and 1 arguments (buffer size boundary), and the known-defect shape (double _Complex argument, not last)
        for t in ['int8_t', 'uint8_t', 'int16_t', 'uint16_t', 'int32_t', 'uint32_t', '_Bool', 'char', 'wchar_t', 'char16_t',
                  'int64_t', 'uint64_t']:
            sigs.append(dict(args=["int"], res=t, consts=[gen_const(rng, "int")]))
        for t in ['double _Complex', 'long double', 'struct s3', 'struct s6', 'float _Complex', 'struct s4']:
            sigs.append(dict(args=[], res=t, consts=[]))
            sigs.append(dict(args=["char"], res=t, consts=[gen_const(rng, "char")]))
        # unions by value (<= 8 bytes and > 8 bytes), alone, followed by other arguments, and as results
        for u in sorted(cc.UNIONS):
            sigs.append(dict(args=[u], res="int", consts=[gen_const(rng, u)]))
            sigs.append(dict(args=[u, "int", "double"], res=u, consts=[gen_const(rng, u), 7, d2hex(1.5)]))
        sigs.append(dict(args=["double _Complex", "int"], res="int", consts=[gen_const(rng, "double _Complex"), 5]))
        sigs.append(dict(args=["double _Complex", "double _Complex", "short"], res="void",
                         consts=[[d2hex(1.0), d2hex(2.0)], [d2hex(3.0), d2hex(4.0)], -7]))
        first_partial = len(sigs)
        for t in ['struct s1', 'struct s2', 'struct s3', 'struct s5', 'struct s6', 'union u2', 'union u3', 'union u5']:
            sigs.append(dict(args=[], res=t, consts=[]))
            sigs.append(dict(args=["int"], res=t, consts=[gen_const(rng, "int")]))
        scen = []
        for si in range(len(sigs)):
            gen_scenarios(rng, sigs, si, ctx.n(8, 12), scen)
            if ckind(sigs[si]["res"]) in ('struct', 'union'):
                partial_error_scenarios(rng, sigs, si, scen, 4 if si >= first_partial else 2)
        # regression (fixed finding onerror_bad_value): body fails, error=1, onerror returns an unconvertible value
        sigs.append(dict(args=["int"], res="uint32_t", consts=[3]))
        for bad in (["int", 1 << 32], ["str", [97]]):
            scen.append(dict(id=len(scen), sig=len(sigs) - 1, path="callback", body=["raise"], error=["int", 1],
                             onerror=["ret", bad], wide=False))
        batches.append(dict(kind="batch", tag="b%d" % b, sigs=sigs, scenarios=scen))
    # ASan smoke (every tier): results at the buffer-size boundary (double _Complex / long double / struct / float _Complex
    # with 0 and 1 arguments, value / error value / zero fill), and the last-argument double _Complex store (8 bytes past `a`)
    sigs = []
    for t in ['double _Complex', 'long double', 'struct s3', 'float _Complex', 'int8_t', 'union u3']:
        sigs.append(dict(args=[], res=t, consts=[]))
        sigs.append(dict(args=["char"], res=t, consts=[gen_const(rng, "char")]))
    for u in ['union u1', 'union u3', 'union u5', 'union u4']:
        sigs.append(dict(args=[u], res="int", consts=[gen_const(rng, u)]))
        sigs.append(dict(args=[u, "short", u], res="void", consts=[gen_const(rng, u), -3, gen_const(rng, u)]))
    scen = []
    for si, sg in enumerate(sigs):
        R = sg["res"]
        val = (lambda: ret_spec(R, gen_const(rng, R))) if R != 'void' else (lambda: ["none"])
        scen.append(dict(id=len(scen), sig=si, path="externpy", body=["ret", val()], error=None,
                         onerror=["none"], wide=False))
        scen.append(dict(id=len(scen), sig=si, path="externpy", body=["raise"], error=val() if R != 'void' else None,
                         onerror=["none"], wide=False))
        scen.append(dict(id=len(scen), sig=si, path="externpy", body=["ret", gen_bad_ret(rng, R)], error=None,
                         onerror=["ret", val()] if R != 'void' else ["retnone"], wide=False))
    sigs.append(dict(args=["double _Complex"], res="void", consts=[[d2hex(1.5), d2hex(-2.25)]]))
    scen.append(dict(id=len(scen), sig=len(sigs) - 1, path="externpy", body=["ret", ["none"]], error=None, onerror=["none"],
                     wide=False))
    batches.append(dict(kind="batch", tag="smoke", sigs=sigs, scenarios=scen, asan_only=True))
    return batches


# ------------------------------------------------------------------ oracle (property predicate) and model literals

def widen(t, b, encode):
    """convert_from_object_fficallback: what is written for a small result in the libffi convention"""
    s = csize(t)
    if not encode or s >= 8 or ckind(t) not in ('int', 'bool', 'char', 'ptr'):
        return b
    if ckind(t) == 'int' and cc.INTS[t][1]:
        v = int.from_bytes(b, "little", signed=True)
        return (v % (1 << 64)).to_bytes(8, "little")
    return b + b"\0" * (8 - s)


def oracle(sig, sc, gbuf):
    """(created, bytes C must read [masked] or None when unspecified, reports) by the documented protocol"""
    R = sig["res"]
    encode = sc["path"] == "callback"
    size = csize(R)
    nread = 4 if sc.get("wide") else size
    eb = b"\0" * max(size, 8)
    if sc["error"] is not None:
        e = enc(R, sc["error"], gbuf)
        if e is None:
            return dict(created=False)
        e = widen(R, e, encode)
        eb = e + eb[len(e):]
    body = enc(R, sc["body"][1], gbuf) if sc["body"][0] == "ret" else None
    if body is not None:
        w = widen(R, body, encode)
        return dict(created=True, out=w[:nread] if R != 'void' else b"", printed=0, onerror_calls=0)
    res, printed, calls = eb, 0, 0
    oe = sc["onerror"]
    if oe[0] == "none":
        printed = 1
    else:
        calls = 1
        if oe[0] == "raise":
            printed = 2
        elif oe[0] == "ret":
            v = enc(R, oe[1], gbuf) if oe[1] != ["none"] else "none"
            if v == "none":
                pass
            elif v is None:
                printed = 2
            else:
                v = widen(R, v, encode)
                res = v + eb[len(v):]
    return dict(created=True, out=res[:nread] if R != 'void' else b"", printed=printed, onerror_calls=calls)


def rkind_lit(t):
    k = ckind(t)
    s = csize(t)
    if k == 'void':
        return "RVoid"
    if k == 'int' and cc.INTS[t][1]:
        return "(RSigned %d)" % s
    if k in ('int', 'bool', 'char', 'ptr'):
        return "(RZeroExt %d)" % s
    return "(ROther %d)" % s


def pyret_lit(t, spec, gbuf):
    """classify a Python value for the model: RetNone / RetInt z (the model decides the range) / RetBytes / RetBad"""
    k = ckind(t)
    if spec[0] == "none":
        return "RetNone"
    if k == 'void':
        return "RetBad"
    if k == 'int':
        return "(RetInt (%d))" % spec[1] if spec[0] in ("int", "bool") else "RetBad"
    if k == 'bool':
        # _Bool accepts exactly 0 and 1 (convert_from_object: value > 1 -> OverflowError)
        return "(RetInt (%d))" % spec[1] if spec[0] in ("int", "bool") and spec[1] in (0, 1) else "RetBad"
    if k in ('char', 'ptr'):
        b = enc(t, spec, gbuf)
        return "(RetInt %d)" % int.from_bytes(b, "little") if b is not None else "RetBad"
    b = enc(t, spec, gbuf)
    return "(RetBytes [%s])" % ";".join("%d" % x for x in b) if b is not None else "RetBad"


def finding_key(sig, sc, gbuf=0):
    if sc["path"] == "externpy" and "double _Complex" in sig["args"]:
        return "double_complex_arg"
    return None


def single_case(batch, sc):
    sig = batch["sigs"][sc["sig"]]
    return dict(kind="batch", tag="r", sigs=[sig], scenarios=[dict(sc, sig=0, id=0)], asan_only=bool(batch.get("asan_only")))


def describe(sig, sc):
    return "%s path, %s f(%s) consts=%r body=%r error=%r onerror=%r%s" % (
        sc["path"], sig["res"], ", ".join(sig["args"]), sig["consts"], sc["body"], sc["error"], sc["onerror"],
        " [read as 32-bit EAX]" if sc.get("wide") else "")


def evaluate(ctx, cases):
    for batch in cases:
        if not batch.get("asan_only"):
            evaluate_batch(ctx, batch, asan=False)
        if batch.get("asan_only") or (ctx.thorough and batch["tag"] in ("b0", "r")):
            evaluate_batch(ctx, batch, asan=True)


def check_platform(ctx, sizes):
    """hypothesis wf_xtype of C14_externpy_buffer_safe, instantiated on this platform"""
    for name, s in sorted(sizes.items()):
        if not isinstance(s, int):
            continue
        limit = 16 if name in ("long double", "_cffi_double_complex_t") else 8
        if not (1 <= s <= limit):
            ctx.obligation_broken("C14 platform hypothesis wf_xtype: sizeof(%s) = %r exceeds %d" % (name, s, limit),
                                  "a primitive type larger than 8 bytes other than long double / double _Complex is stored "
                                  "by value in an 8-byte slot")
    ctx.extra["platform_sizes_checked"] = len(sizes)


def evaluate_batch(ctx, batch, asan):
    s = ctx.scratch(asan=asan)
    sigs, scen = batch["sigs"], batch["scenarios"]
    tag = batch["tag"] + ("a" if asan else "")
    out, p = s.run_worker("c14_worker.py", dict(sigs=sigs, scenarios=scen, tag=tag, asan=asan), timeout=1500)
    if out is None:
        where = None
        try:
            where = int(open(os.path.join(s.work, "c14_progress_%s.txt" % tag)).read().split()[0])
        except Exception:
            pass
        tail = (p.stderr or "")[-3000:]
        if where is not None and p.returncode != 0:
            sc = scen[where]
            sig = sigs[sc["sig"]]
            ctx.count()
            ctx.violation(single_case(batch, sc), "crash or sanitizer report (rc=%s) during %s\n%s"
                          % (p.returncode, describe(sig, sc), tail[-1500:]), finding_key(sig, sc))
            # the rest of the batch did not run: run it again without this signature
            rest = [x for x in scen if x["sig"] != sc["sig"]]
            if rest and len(rest) < len(scen):
                rest = [dict(x, id=i) for i, x in enumerate(rest)]
                evaluate_batch(ctx, dict(batch, scenarios=rest, tag=batch["tag"] + "x"), asan)
            return
        raise vlib.BuildError("C14 worker failed (rc=%s): %s" % (p.returncode, tail or p.stdout[-1500:]))
    gbuf = out["gbuf"]
    check_platform(ctx, out["sizes"])
    coq_cases, owner = [], []
    for sc, r in zip(scen, out["results"]):
        sig = sigs[sc["sig"]]
        R = sig["res"]
        ctx.count()
        key = finding_key(sig, sc, gbuf)
        want = oracle(sig, sc, gbuf)
        ctx.hist("path", sc["path"])
        ctx.hist("body", sc["body"][0] if sc["body"][0] == "raise" else ("ret" if enc(R, sc["body"][1], gbuf) is not None else "bad-ret"))
        ctx.hist("onerror", sc["onerror"][0])
        ctx.hist("result_kind", ckind(R))
        case = single_case(batch, sc)
        # ---- property predicate on the implementation
        if r["created"] != want["created"]:
            ctx.violation(case, "ffi.callback/def_extern %s but the error value %s: %s" % (
                "was accepted" if r["created"] else "raised " + str(r["create_exc"]),
                "is not convertible" if not want["created"] else "is convertible", describe(sig, sc)), key)
            continue
        if not r["created"]:
            ctx.nontrivial(("badcreate", sig["res"], sc["error"]))
        else:
            if r["escaped"] is not None:
                ctx.violation(case, "exception %s escaped into the C caller: %s" % (r["escaped"], describe(sig, sc)), key)
                continue
            wantargs = [recv_canon(t, v) for t, v in zip(sig["args"], sig["consts"])]
            if len(r["received"]) != 1 or r["received"][0] != wantargs:
                ctx.violation(case, "Python function received %r, C passed %r: %s" % (r["received"], wantargs, describe(sig, sc)), key)
                continue
            got = bytes.fromhex(r["out"])
            n = len(want["out"])
            m = mask(R) if not sc.get("wide") and R != 'void' else [1] * n
            if sc.get("fullmask"):
                m = [1] * n
            gotm = bytes(b if k else 0 for b, k in zip(got[:n], m))
            wantm = bytes(b if k else 0 for b, k in zip(want["out"], m))
            if gotm != wantm or got[n:] != b"\xee" * (64 - n):
                ctx.violation(case, "C caller received %s, expected %s: %s" % (got[:max(n, 1)].hex(), want["out"].hex(), describe(sig, sc)), key)
                continue
            if r["printed"] != want["printed"] or r["onerror_calls"] != want["onerror_calls"]:
                ctx.violation(case, "%d report(s) through sys.unraisablehook and %d onerror call(s), expected %d and %d: %s"
                              % (r["printed"], r["onerror_calls"], want["printed"], want["onerror_calls"], describe(sig, sc)), key)
                continue
            if sc["body"][0] == "raise" or want["printed"] or sc["onerror"][0] != "none" or sc.get("wide"):
                ctx.nontrivial(("sc", sig["res"], sig["args"], sc["path"], sc["body"], sc["error"], sc["onerror"], sc.get("wide")))
        # ---- correspondence with the model
        encode = sc["path"] == "callback"
        k = rkind_lit(R)
        err = "None" if sc["error"] is None else "(Some %s)" % pyret_lit(R, sc["error"], gbuf)
        body = "BRaises" if sc["body"][0] == "raise" else "(BReturns %s)" % pyret_lit(R, sc["body"][1], gbuf)
        oe = {"none": "ONone", "retnone": "OReturnsNone", "raise": "ORaises"}.get(sc["onerror"][0])
        if oe is None:
            oe = "OReturnsNone" if sc["onerror"][1] == ["none"] else "(OReturns %s)" % pyret_lit(R, sc["onerror"][1], gbuf)
        nread = 4 if sc.get("wide") else csize(R)
        inp = "(%s, %s, %s, %s, %s, %d%%nat)" % (cbool(encode), k, err, body, oe, nread)
        if not r["created"]:
            exp = "None"
        else:
            got = bytes.fromhex(r["out"])[:nread]
            m = mask(R) if not sc.get("wide") and R != 'void' else [1] * nread
            if sc.get("fullmask"):
                m = [1] * nread
            exp = "(Some ([%s], %d%%nat))" % (";".join("%d" % (b if kk else 0) for b, kk in zip(got, m)), r["printed"])
        coq_cases.append((inp, exp))
        owner.append(sc)
    prelude = ("Definition run_case (c : bool * rkind * option pyret * body * onerr * nat) : option (list Z * nat) :=\n"
               "  let '(encode, k, error, b, oe, nread) := c in\n"
               "  match rawerr encode k error with None => None\n"
               "  | Some eb => let s := exec_gic gic_prog encode k eb b oe (repeat 238 64) in\n"
               "               if pending s then None else Some (firstn nread (buf s), printed s) end.\n"
               "Definition res_eqb := opt_eqb (pair_eqb (list_eqb Z.eqb) Nat.eqb).\n")
    bad, outs_, err = vlib.coq_mismatches(["C14.Spec", "C14.Gen", "C14.Model"], "run_case", "res_eqb", coq_cases, prelude=prelude,
                                          shard=200)
    if err:
        ctx.obligation_broken("C14 model evaluation", err)
    for b in bad:
        sc = owner[b]
        sig = sigs[sc["sig"]]
        if finding_key(sig, sc) == "double_complex_arg":
            continue
        ctx.mismatch(single_case(batch, sc), "model predicts %s, implementation gave %s for %s"
                     % (outs_.get(b), coq_cases[b][1], describe(sig, sc)),
                     "C14.Model.exec_gic on the regenerated C14.Gen.gic_prog / fficallback / rawerr vs general_invoke_callback")
    ctx.cov["model_cases"] = ctx.cov.get("model_cases", 0) + len(coq_cases)
    if not asan:
        for sc in scen[:2]:
            ctx.sample(dict(sig=sigs[sc["sig"]], scenario=sc))


def run(ctx):
    ctx.cov["rule"] = ("one batch = ~60-110 random signatures (0..7 arguments over integers of every size/sign, _Bool, char, "
                       "wchar_t, char16_t, float, double, long double, pointers, six structs by value, float/double _Complex "
                       "for extern \"Python\") with constant argument values compiled once into an API-mode module with C "
                       "callers; 7-12 scenarios each over path {ffi.callback, extern \"Python\"} x body {returns, raises, "
                       "returns unconvertible} x error= {absent, valid, unconvertible} x onerror= {absent, returns None, "
                       "returns value, returns unconvertible, raises} (+ 32-bit EAX read for results narrower than int). "
                       "Non-trivial = scenario with a raising/bad body, an onerror handler, a report, or a widened read; "
                       "distinct by (signature, scenario).")
    ctx.assumptions += [
        "coq/C14/Gen.v regenerated from recompiler._extern_python_decl by the shape-matching driver tools/props/c14_regen.py "
        "(trusted; fails closed to the committed snapshot)",
        "coq/C14/Gen.v gic_prog / gic_slot_stride / gic_deref_*: general_invoke_callback translated statement by statement "
        "(trusted table of exact statement and condition texts in c14_regen.py; a statement outside the table writes a "
        "degenerate gic_prog whose obligations break); the MEANING of each statement (C14/Model.v exec_stmt / eval_cond) is "
        "hand-written and tied by this run's differential test, which evaluates exec_gic on the regenerated tree; the "
        "argument loop is executed for one representative iteration, PyTuple_New failure is outside the model",
        "hand-written model C14/Model.v of convert_from_object_fficallback / prepare_callback_info_tuple (and of "
        "general_invoke_callback as the state machine `invoke`, proved equal to the regenerated tree); tied to the code by "
        "this run's differential test",
        "platform hypothesis wf_xtype (every primitive type other than long double and double _Complex has sizeof <= 8) "
        "checked against ffi.sizeof on every run",
        "libffi closures, gcc and the x86-64 SysV return-register convention are exercised by sampling only"]
    evaluate(ctx, generate(ctx))


MANIFEST = dict(
    technique="Coq proof over models regenerated from recompiler._extern_python_decl (buffer arithmetic, all signatures) and from "
              "general_invoke_callback (statement tree of the whole function incl. the error/onerror path, slot stride, "
              "dereference flags), a hand model of convert_from_object_fficallback / prepare_callback_info_tuple + "
              "differential execution of compiled random signatures against the regenerated tree",
    text="Proved, for ALL inputs. (1) Regenerated from recompiler.py: for all extern \"Python\" signatures without double "
         "_Complex arguments every argument store of the generated wrapper and every backend write of the result (value, "
         "error value, zero fill) stays inside char a[size_of_a] and below the next slot (C14_externpy_buffer_safe); the "
         "wrapper's offsets and by-reference rule equal the backend's, whose stride and flag set are now regenerated from "
         "`a_src = args + i * 8` / the ct_flags test (C14_externpy_protocol_agrees); C14_externpy_args_exact: with every "
         "stored representation at most 8 bytes, the backend's read of slot k+i returns exactly the bytes stored for "
         "argument i (a generic lemma about disjoint 8-byte slots over the hand-defined wrapper_stores; only slot_offset "
         "and the stride come from source; its hypothesis excludes the open finding). (2) Regenerated from "
         "general_invoke_callback (gic_prog, executed by exec_gic): C14_gen_no_escape — PyErr_Occurred() is false at the "
         "function's return for every convention, result type, error value, body outcome (returns anything / raises / an "
         "argument cannot be converted) and onerror outcome, and the return is reached; C14_gen_agrees_with_invoke — the "
         "regenerated tree equals the hand state machine `invoke` (result area, pending flag, number of reports) when the "
         "result type is void or of positive size and the error value is >= 8 bytes, so C14_protocol_table / "
         "C14_no_exception_escapes / C14_error_value_received (C receives the value, the error value or onerror's value per "
         "the table) hold of regenerated code; C14_gen_error_value_received states the last one directly. (3) Hand model "
         "only (tied by correspondence): small integer results are sign/zero extended to a whole ffi_arg "
         "(C14_widening_signed/_unsigned, C14_no_widening); float/long double/complex/struct results enter as oracle bytes. "
         "(4) C14_paths_use_modelled_code: eleven regenerated boolean facts (anchored ordered-substring extraction) that "
         "ffi.callback() and extern \"Python\" reach general_invoke_callback with encode=1/0, that prepare_callback_info_tuple "
         "and convert_from_object_fficallback keep their shape — textual anchors, not translations. Refuted (finding): "
         "double _Complex arguments overflow/overlap their 8-byte slot (C14_externpy_args_refuted, _overlap_refuted). "
         "Correspondence only: bytes -> Python object of arguments (convert_to_object), ffi.callback argument delivery "
         "(libffi), the unattached extern \"Python\" branch of cffi_call_python, libffi closures and the ABI (sampling).",
    note="Trusted: Coq kernel; py2coq driver and the statement/condition table of c14_regen.py; the hand-written meaning of "
         "each gic_prog statement (exec_stmt/eval_cond) and the hand model of fficallback/rawerr in C14/Model.v (tied by "
         "differential testing on the regenerated tree); gcc; libffi. A statement of general_invoke_callback outside the "
         "table makes the run write a degenerate gic_prog: broken obligations, not a silent fallback. Theorems closed under "
         "the global context.",
    design_ref="DESIGN.md §4 C14")
