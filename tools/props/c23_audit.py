"""C23 — iteration audit of the emitter, as a regenerated model (coq/C23/Gen.v: `audit_sites`).

In CPython (>= 3.7) the only containers whose iteration order can depend on the hash seed / on object addresses
are sets.  Sets arise only from set constructors; this audit tracks set-valued expressions through the four files
that produce the emitted text (by name: assignments, function results, arguments passed to functions of these
files — a fixpoint) and classifies EVERY use of a set-valued expression; it also records every iteration over a dict
(insertion-ordered: deterministic when the program that fills it is) and every call whose result differs between
processes (id, hash, getpid, time, random, environ, directory listings).  An unclassified use is recorded as
UEscapes, for which no theorem holds: the obligation C23_audit_sites_ok then breaks (fail closed).
"""
import ast
import os

from lib import py2coq
from lib.py2coq import Untranslatable

FILES = [("src/cffi/recompiler.py", "Recompiler"), ("src/cffi/cffi_opcode.py", "Opcode"),
         ("src/cffi/model.py", "ModelPy"), ("src/cffi/cparser.py", "CParser")]
SET_BUILD_METHODS = {"union", "intersection", "difference", "symmetric_difference", "copy"}
SET_MUTATORS = {"add", "discard", "remove", "update", "clear", "difference_update", "intersection_update",
                "symmetric_difference_update"}          # not pop(): it returns an arbitrary element
ORDER_SENSITIVE = {"list", "tuple", "enumerate", "iter", "map", "filter", "zip", "reversed", "next", "dict"}
COMMUTATIVE = {"any", "all", "min", "max", "sum", "len", "bool", "isinstance"}
NONDET = {"id", "hash", "os.getpid", "os.getppid", "time.time", "time.monotonic", "time.perf_counter", "os.urandom",
          "os.listdir", "os.scandir", "os.walk", "glob.glob", "os.getcwd", "os.environ.get", "os.getenv",
          "random.random", "random.choice", "random.randrange", "random.shuffle", "uuid.uuid4", "tempfile.mkstemp",
          "tempfile.mkdtemp", "os.getuid"}
# (enclosing function, call) pairs whose result does not reach the emitted text
NONDET_ALLOWED = {("_make_c_or_py_source", "os.getpid"): "name of the temporary file only",
                  ("__hash__", "hash"): "hash values only place objects inside sets/dicts (covered by the set audit)",
                  ("recompile", "os.getcwd"): "compiler working directory, after the source has been written"}


def dotted(node):
    if isinstance(node, ast.Name):
        return node.id
    if isinstance(node, ast.Attribute):
        d = dotted(node.value)
        return d + "." + node.attr if d else None
    return None


def ref_name(node):
    if isinstance(node, ast.Name):
        return node.id
    if isinstance(node, ast.Attribute):
        return node.attr
    return None


class Audit:
    def __init__(self, repo):
        self.trees = {}
        self.parents = {}
        self.funcs = {}          # name -> [FunctionDef]
        self.encl = {}           # node -> enclosing FunctionDef
        for rel, tag in FILES:
            tree = py2coq.parse_source(os.path.join(repo, rel))
            self.trees[tag] = tree
            for node in ast.walk(tree):
                for ch in ast.iter_child_nodes(node):
                    self.parents[ch] = node
                if isinstance(node, ast.FunctionDef):
                    self.funcs.setdefault(node.name, []).append(node)
            self._enclose(tree, None)
        self.setnames, self.setfuncs, self.dictnames = set(), set(), set()
        self.added = {}
        self._fixpoint()

    def _enclose(self, node, fn):
        for ch in ast.iter_child_nodes(node):
            self.encl[ch] = fn
            self._enclose(ch, ch if isinstance(ch, ast.FunctionDef) else fn)

    # ---------------------------------------------------------------- typing by provenance
    def is_set(self, n):
        if isinstance(n, (ast.Set, ast.SetComp)):
            return True
        if isinstance(n, ast.Call):
            f = n.func
            if isinstance(f, ast.Name) and f.id in ("set", "frozenset"):
                return True
            nm = ref_name(f)
            if nm in self.setfuncs:
                return True
            if isinstance(f, ast.Attribute) and f.attr in SET_BUILD_METHODS and self.is_set(f.value):
                return True
            return False
        if isinstance(n, ast.Name):
            return n.id in self.setnames
        if isinstance(n, ast.Attribute):
            return n.attr in self.setnames
        if isinstance(n, ast.BinOp) and isinstance(n.op, (ast.BitOr, ast.BitAnd, ast.Sub, ast.BitXor)):
            return self.is_set(n.left) or self.is_set(n.right)
        if isinstance(n, ast.IfExp):
            return self.is_set(n.body) or self.is_set(n.orelse)
        return False

    def is_dict(self, n):
        if isinstance(n, (ast.Dict, ast.DictComp)):
            return True
        if isinstance(n, ast.Call):
            d = dotted(n.func) or ""
            if d in ("dict", "collections.OrderedDict", "OrderedDict", "weakref.WeakKeyDictionary",
                     "weakref.WeakValueDictionary"):
                return True
            if isinstance(n.func, ast.Attribute) and n.func.attr in ("items", "keys", "values") and not n.args:
                return True
            return False
        if isinstance(n, (ast.Name, ast.Attribute)):
            return ref_name(n) in self.dictnames
        return False

    def _fixpoint(self):
        changed = True
        while changed:
            changed = False
            for tree in self.trees.values():
                for node in ast.walk(tree):
                    tgts, val = [], None
                    if isinstance(node, ast.Assign):
                        tgts, val = node.targets, node.value
                    elif isinstance(node, (ast.AugAssign, ast.AnnAssign)) and node.value is not None:
                        tgts, val = [node.target], node.value
                    if val is not None:
                        for pool, test in ((self.setnames, self.is_set), (self.dictnames, self.is_dict)):
                            if test(val):
                                for t in tgts:
                                    nm = ref_name(t)
                                    if nm and nm not in pool:
                                        pool.add(nm)
                                        changed = True
                    if isinstance(node, ast.Return) and node.value is not None and self.is_set(node.value):
                        fn = self.encl.get(node)
                        if fn is not None and fn.name not in self.setfuncs:
                            self.setfuncs.add(fn.name)
                            changed = True
                    if isinstance(node, ast.Call):
                        callee = ref_name(node.func)
                        for fd in self.funcs.get(callee, []):
                            params = [a.arg for a in fd.args.args]
                            if params and params[0] in ("self", "cls") and isinstance(node.func, ast.Attribute):
                                params = params[1:]
                            for i, a in enumerate(node.args):
                                if i < len(params) and self.is_set(a) and params[i] not in self.setnames:
                                    self.setnames.add(params[i])
                                    changed = True
                            for kw in node.keywords:
                                if kw.arg in params and self.is_set(kw.value) and kw.arg not in self.setnames:
                                    self.setnames.add(kw.arg)
                                    changed = True
        # constants added to each set (singleton exception)
        for tree in self.trees.values():
            for node in ast.walk(tree):
                if isinstance(node, ast.Call) and isinstance(node.func, ast.Attribute) and node.func.attr in ("add", "update") \
                        and self.is_set(node.func.value):
                    nm = ref_name(node.func.value)
                    arg = node.args[0] if node.args else None
                    self.added.setdefault(nm, set()).add(
                        ("const", arg.value) if node.func.attr == "add" and isinstance(arg, ast.Constant)
                        else ("other", node.lineno))

    # ---------------------------------------------------------------- classification
    def singleton(self, node):
        vals = self.added.get(ref_name(node))
        return bool(vals) and all(k == "const" for k, _ in vals) and len(vals) == 1

    def classify(self, node):
        par = self.parents.get(node)
        if isinstance(par, (ast.Assign, ast.AnnAssign)) and par.value is node:
            return "UAssigned"
        if isinstance(par, ast.AugAssign) and par.value is node:
            return "USetBuild" if isinstance(par.op, (ast.BitOr, ast.BitAnd, ast.Sub, ast.BitXor)) else "UEscapes"
        if isinstance(par, ast.Return):
            return "UReturned"
        if isinstance(par, ast.Compare):
            if node in par.comparators and all(isinstance(o, (ast.In, ast.NotIn)) for o in par.ops):
                return "UMembership"
            if all(isinstance(o, (ast.Eq, ast.NotEq, ast.LtE, ast.GtE, ast.Lt, ast.Gt, ast.Is, ast.IsNot)) for o in par.ops):
                return "UCommutative"
            return "UEscapes"
        if isinstance(par, ast.BinOp) and isinstance(par.op, (ast.BitOr, ast.BitAnd, ast.Sub, ast.BitXor)):
            return "USetBuild"
        if isinstance(par, ast.IfExp) and par.test is not node:
            return "UAssigned"           # the IfExp itself is set-valued and audited at its own use
        if isinstance(par, ast.Attribute) and par.value is node:
            gp = self.parents.get(par)
            if isinstance(gp, ast.Call) and gp.func is par:
                if par.attr in SET_MUTATORS:
                    return "UMutated"
                if par.attr in SET_BUILD_METHODS or par.attr in ("issubset", "issuperset", "isdisjoint", "__contains__"):
                    return "USetBuild"
            return "UEscapes"
        if isinstance(par, ast.Call) and (node in par.args or any(k.value is node for k in par.keywords)):
            d = dotted(par.func) or ""
            if d == "sorted":
                return "USortedKey" if any(k.arg == "key" for k in par.keywords) else "USortedIdentity"
            if d in ("set", "frozenset"):
                return "USetBuild"
            if d in COMMUTATIVE:
                return "UCommutative"
            if d in ORDER_SENSITIVE or (isinstance(par.func, ast.Attribute) and par.func.attr in ("join", "extend", "fromkeys")):
                return "UIteratedSingleton" if self.singleton(node) else "UIterated"
            if isinstance(par.func, ast.Attribute) and par.func.attr in ("update", "difference_update", "intersection_update") \
                    and self.is_set(par.func.value):
                return "USetBuild"
            if self.funcs.get(ref_name(par.func)):
                return "UPassed"
            return "UEscapes"
        if isinstance(par, (ast.For, ast.comprehension)) and par.iter is node:
            if isinstance(par, ast.comprehension) and isinstance(self.parents.get(par), ast.SetComp):
                return "USetBuild"
            return "UIteratedSingleton" if self.singleton(node) else "UIterated"
        if isinstance(par, (ast.If, ast.While, ast.BoolOp, ast.UnaryOp, ast.Assert)) or (
                isinstance(par, ast.IfExp) and par.test is node):
            return "UCommutative"
        if isinstance(par, ast.Starred):
            return "UIterated"
        return "UEscapes"

    def sites(self):
        """-> list of (tag, line, container, use, text)"""
        out = []
        for tag, tree in self.trees.items():
            for node in ast.walk(tree):
                if isinstance(getattr(node, "ctx", None), (ast.Store, ast.Del)):
                    continue
                if self.is_set(node):
                    out.append((tag, node.lineno, "CSet", self.classify(node), ast.unparse(node)[:60]))
                    continue
                # iteration over dicts (insertion-ordered)
                par = self.parents.get(node)
                if self.is_dict(node) and not (isinstance(par, ast.Attribute) and par.value is node):
                    if isinstance(par, (ast.For, ast.comprehension)) and par.iter is node:
                        out.append((tag, node.lineno, "CDict", "UDictIter", ast.unparse(node)[:60]))
                    elif isinstance(par, ast.Call) and node in par.args:
                        d = dotted(par.func) or ""
                        if d == "sorted":
                            out.append((tag, node.lineno, "CDict", "USortedStable", ast.unparse(par)[:60]))
                        elif d in ORDER_SENSITIVE or (isinstance(par.func, ast.Attribute) and par.func.attr in ("join", "extend")):
                            out.append((tag, node.lineno, "CDict", "UDictIter", ast.unparse(par)[:60]))
                if isinstance(node, ast.Call):
                    d = dotted(node.func)
                    if d in NONDET:
                        fn = self.encl.get(node)
                        ok = (fn.name if fn is not None else "<module>", d) in NONDET_ALLOWED
                        out.append((tag, node.lineno, "COther", "UNondetAllowed" if ok else "UNondetCall",
                                    "%s in %s" % (d, fn.name if fn is not None else "<module>")))
        out.sort(key=lambda s: ([t for _, t in FILES].index(s[0]), s[1], s[3], s[4]))
        return out


def audit(repo):
    try:
        return Audit(repo).sites()
    except (SyntaxError, OSError, RecursionError) as e:
        raise Untranslatable("iteration audit: %s" % e)


def gallina(sites):
    rows = []
    for tag, line, cont, use, text in sites:
        safe = text.replace("(*", "( *").replace("*)", "* )").replace("\n", " ")
        rows.append("  mk_site %s %d %s %s   (* %s *)" % (tag, line, cont, use, safe))
    body = ";\n".join(rows)
    # the comment of the last row must not swallow the closing bracket
    return "Definition audit_sites : list site := [\n%s\n].\n" % body


def problems(sites):
    bad = {"UIterated", "UEscapes", "USortedKey", "UNondetCall"}
    return ["src %s line %d: %s %s (%s)" % (t, l, c, u, x) for t, l, c, u, x in sites if u in bad and (c == "CSet" or u == "UNondetCall")]


# ---------------------------------------------------------------------------- per-instance state
# "the text is a function of the declarations": the mutable state of Parser / FFI / Recompiler / the model types must
# belong to ONE object.  A mutable container bound in a class body is shared by every instance in the process (one
# FFI's include() would then change what another FFI generates).  Regenerated fact `class_level_mutable_state`
# (Gen.v): every class-body binding of a mutable container in the emitter's files and api.py, except constant tables
# (ALL_CAPS name that no statement of these files mutates).  Obligation C23_state_is_per_instance: the list is empty.
STATE_FILES = FILES + [("src/cffi/api.py", "ApiPy")]
MUTABLE_CALLS = {"set", "dict", "list", "bytearray", "defaultdict", "OrderedDict", "deque", "Counter",
                 "WeakKeyDictionary", "WeakValueDictionary", "WeakSet"}
LIST_DICT_MUTATORS = SET_MUTATORS | {"append", "extend", "insert", "pop", "popitem", "setdefault", "sort", "reverse"}


def _mutable_value(v):
    if isinstance(v, (ast.Set, ast.Dict, ast.List, ast.ListComp, ast.SetComp, ast.DictComp)):
        return True
    if isinstance(v, ast.Call):
        d = dotted(v.func) or ""
        return d.split(".")[-1] in MUTABLE_CALLS
    return False


def class_state(repo):
    """-> [(file tag, line, class, name, text)] of class-level mutable bindings that are not constant tables"""
    trees = []
    try:
        for rel, tag in STATE_FILES:
            trees.append((tag, py2coq.parse_source(os.path.join(repo, rel))))
    except (SyntaxError, OSError) as e:
        raise Untranslatable("class-state audit: %s" % e)
    mutated = set()      # attribute / variable names that some statement mutates in place
    for _, tree in trees:
        for n in ast.walk(tree):
            if isinstance(n, ast.Call) and isinstance(n.func, ast.Attribute) and n.func.attr in LIST_DICT_MUTATORS:
                r = ref_name(n.func.value)
                if r:
                    mutated.add(r)
            if isinstance(n, (ast.Subscript,)) and isinstance(n.ctx, (ast.Store, ast.Del)):
                r = ref_name(n.value)
                if r:
                    mutated.add(r)
            if isinstance(n, ast.AugAssign):
                r = ref_name(n.target)
                if r:
                    mutated.add(r)
    out = []
    for tag, tree in trees:
        for c in ast.walk(tree):
            if not isinstance(c, ast.ClassDef):
                continue
            for s in c.body:
                if isinstance(s, ast.Assign):
                    names, v = [t.id for t in s.targets if isinstance(t, ast.Name)], s.value
                elif isinstance(s, ast.AnnAssign) and s.value is not None and isinstance(s.target, ast.Name):
                    names, v = [s.target.id], s.value
                else:
                    continue
                if not _mutable_value(v):
                    continue
                for name in names:
                    if name.isupper() and name not in mutated:
                        continue          # constant table (ALL_STEPS, ALL_PRIMITIVE_TYPES)
                    out.append((tag, s.lineno, c.name, name, ast.unparse(s).replace("\n", " ")[:70]))
    return out


def gallina_state(rows):
    items = ";\n".join("  (%s, %d%%N)   (* class %s: %s *)" % (
        tag, line, cls, text.replace("(*", "( *").replace("*)", "* )")) for tag, line, cls, name, text in rows)
    return ("(* class-body bindings of mutable containers (shared by all instances of the class in the process) in\n"
            "   recompiler.py, cffi_opcode.py, model.py, cparser.py, api.py; constant ALL_CAPS tables excluded *)\n"
            "Definition class_level_mutable_state : list (srcfile * N) := [\n%s\n]." % items)
