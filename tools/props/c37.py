"""C37 — closed dlopen libraries refuse further symbol access.

Tie: random access histories (reads, writes, function fetches and calls, constants, addressof,
dlclose — before and after the close, several lib objects of both modes on the same compiled
library) are run on the real implementation (c37_worker.py) and on the Coq model
C37.Model.run_case; outputs and final library memory must agree.  Independently of the model the
property predicate is evaluated on the implementation's outputs: after dlclose(lib) every
read / write / function fetch / call through lib raised, closing again returned None, the
library's memory did not change through a closed lib, the process survived; before the close
reads return the value last stored.
"""
import ast
import json
import os
import re

from lib import vlib
from lib.py2coq import Untranslatable
from lib.vlib import cz, clist, cpair, cnat

ID = "C37"

CTYPES = [("signed char", -128, 127), ("short", -2 ** 15, 2 ** 15 - 1), ("int", -2 ** 31, 2 ** 31 - 1),
          ("long", -2 ** 63, 2 ** 63 - 1), ("unsigned char", 0, 255), ("unsigned short", 0, 2 ** 16 - 1),
          ("unsigned int", 0, 2 ** 32 - 1), ("unsigned long", 0, 2 ** 64 - 1), ("long long", -2 ** 63, 2 ** 63 - 1),
          # enum-typed globals (accessible since /repo ec6f466), a pointer-typed and a struct-typed global: all are
          # integer-valued for the model (enumerator value / address / the struct's only field)
          ("enum e0", 0, 2 ** 32 - 1), ("enum n0", -2 ** 31, 2 ** 31 - 1), ("int *", 0, 2 ** 64 - 1),
          ("struct s0", -2 ** 31, 2 ** 31 - 1)]
NEW_KINDS = CTYPES[-4:]


# ---------------------------------------------------------------- regeneration of coq/C37/Gen.v

GEN = os.path.join(vlib.COQ, "C37", "Gen.v")


def _c_block_statements(path, header, guard):
    """statements (token lists) of the block `if (<guard>) { ... }` inside the C function `header`"""
    from props import c29
    text = c29._strip_comments(open(path).read())
    body = c29._function_body(text, header)
    stmts = c29._Stmts(c29._tokens(body)).all()
    flag = "dlobj->dl_auto_close" if "dlobj" in guard else "lib->l_auto_close"
    forms = {guard: False, guard + "&&" + flag: True, flag + "&&" + guard: True}
    blocks = [s for s in stmts if s[0] == "if" and "".join(s[1]) in forms]
    if len(blocks) != 1 or len(blocks[0]) != 3:
        raise Untranslatable("%s: expected exactly one `if (%s [&& auto_close])` block" % (header, guard))
    return stmts, blocks[0][2], forms["".join(blocks[0][1])]


def translate_close_paths(repo):
    try:
        # in-line: FFILibrary.__cffi_close__ in api.py
        tree = ast.parse(open(os.path.join(repo, "src", "cffi", "api.py")).read())
        fns = [n for n in ast.walk(tree) if isinstance(n, ast.FunctionDef) and n.name == "__cffi_close__"]
        if len(fns) != 1:
            raise Untranslatable("__cffi_close__ not found exactly once")
        inline = []
        for st in fns[0].body:
            src = ast.unparse(st).replace(" ", "")
            if src == "backendlib.close_lib()":
                inline.append("CallCloseLib")
            elif src == "self.__dict__.clear()":
                inline.append("ClearDict")
            elif isinstance(st, ast.Expr) and isinstance(st.value, ast.Constant):
                continue                         # docstring
            else:
                raise Untranslatable("__cffi_close__: statement outside the subset: %s" % src)
        # backend: dl_close_lib
        _, blk, backend_guard_auto = _c_block_statements(os.path.join(repo, "src", "c", "_cffi_backend.c"),
                                     "static PyObject *dl_close_lib(DynLibObject *dlobj, PyObject *no_args)",
                                     "dlobj->dl_handle!=NULL")
        backend = []
        for st in blk:
            t = "".join(st[1]) if st[0] == "expr" else None
            if t == "dlclose(dlobj->dl_handle)":
                backend.append("DlClose")
            elif t == "dlobj->dl_handle=NULL":
                backend.append("SetHandleNull")
            else:
                raise Untranslatable("dl_close_lib: statement outside the subset: %r" % (st,))
        # out-of-line: ffi_dlclose
        allst, blk, ool_guard_auto = _c_block_statements(os.path.join(repo, "src", "c", "cdlopen.c"),
                                         "static PyObject *ffi_dlclose(PyObject *self, PyObject *args)",
                                         "libhandle!=NULL")
        if not any(s[0] == "expr" and "".join(s[1]) == "libhandle=lib->l_libhandle" for s in allst):
            raise Untranslatable("ffi_dlclose: libhandle is not lib->l_libhandle")
        ool = []
        for st in blk:
            if st[0] == "expr" and "".join(st[1]) == "lib->l_libhandle=NULL":
                ool.append("SetHandleNull")
            elif st[0] == "expr" and "".join(st[1]) == "PyDict_Clear(lib->l_dict)":
                ool.append("ClearDict")
            elif st[0] == "if" and "".join(st[1]) == "cdlopen_close(lib->l_libname,libhandle)<0" \
                    and st[2] == [("return", ["NULL"])]:
                ool.append("DlClose")
            else:
                raise Untranslatable("ffi_dlclose: statement outside the subset: %r" % (st,))
        # does the closed test (with its return) precede dlsym() in every access path?
        from props import c29

        def checks_first(path, header, is_test):
            text = c29._strip_comments(open(path).read())
            stmts = c29._Stmts(c29._tokens(c29._function_body(text, header))).all()
            first_dlsym = next((i for i, st in enumerate(stmts) if "dlsym" in _flat(st)), None)
            if first_dlsym is None:
                raise Untranslatable("%s: no dlsym() call" % header)
            return any(is_test(st) for st in stmts[:first_dlsym])

        def _flat(st):
            if st[0] in ("expr", "return"):
                return st[1]
            return list(st[1]) + [t for part in st[2:] for x in part for t in _flat(x)]

        def returns_null(st):
            return any(x[0] == "return" and x[1] == ["NULL"] for x in st[2])
        ool_first = checks_first(
            os.path.join(repo, "src", "c", "cdlopen.c"), "static void *cdlopen_fetch(PyObject *libname, void *libhandle,",
            lambda st: st[0] == "if" and "".join(st[1]) == "libhandle==NULL" and returns_null(st))
        inline_first = all(checks_first(
            os.path.join(repo, "src", "c", "_cffi_backend.c"),
            "static PyObject *%s(DynLibObject *dlobj, PyObject *args)" % fn,
            lambda st: st[0] == "if" and "".join(st[1]) == "dl_check_closed(dlobj)<0" and returns_null(st))
            for fn in ("dl_load_function", "dl_read_variable", "dl_write_variable"))
        # ... and dl_check_closed must be the NULL-handle test
        body = c29._function_body(c29._strip_comments(open(os.path.join(repo, "src", "c", "_cffi_backend.c")).read()),
                                  "static int dl_check_closed(DynLibObject *dlobj)")
        cst = c29._Stmts(c29._tokens(body)).all()
        if not (cst and cst[0][0] == "if" and "".join(cst[0][1]) == "dlobj->dl_handle==NULL"
                and any(x[0] == "return" and x[1] == ["-", "1"] for x in cst[0][2])):
            inline_first = False
    except (OSError, SyntaxError) as e:
        raise Untranslatable(str(e))
    head = open(GEN + ".snapshot").read().split("Definition inline_close")[0]
    return head + ("Definition inline_close : list cstep := [ %s ].\n"
                   "Definition backend_close_lib : list cstep := [ %s ].\n"
                   "Definition ool_close : list cstep := [ %s ].\n"
                   "Definition ool_fetch_checks_first : bool := %s.\n"
                   "Definition inline_checks_first : bool := %s.\n"
                   "Definition backend_close_guard_auto : bool := %s.\n"
                   "Definition ool_close_guard_auto : bool := %s.\n"
                   % ("; ".join(inline), "; ".join(backend), "; ".join(ool),
                      "true" if ool_first else "false", "true" if inline_first else "false",
                      "true" if backend_guard_auto else "false", "true" if ool_guard_auto else "false"))


def regen(ctx):
    from props import c35
    c35.regen_file(ctx, GEN, translate_close_paths)


def gen_desc(rng):
    nv = rng.choice([1, 2, 3, 4])
    vs = [list(rng.choice(CTYPES if rng.random() < 0.5 else NEW_KINDS)) for _ in range(nv)]
    if all(v[0].startswith("struct") for v in vs):
        vs[0] = list(CTYPES[2])
    fns = []
    nonstruct = [k for k, v in enumerate(vs) if not v[0].startswith("struct")]
    for _ in range(rng.choice([1, 2, 3, 5])):
        fns.append([rng.choice(["get", "set"]), rng.choice(nonstruct)])
    consts = [rng.choice([0, 1, -1, 42, 2 ** 31, -2 ** 31 - 1, 2 ** 63 - 1, rng.randrange(-1000, 1000)])
              for _ in range(rng.choice([1, 2, 3]))]
    return dict(vars=vs, fns=fns, consts=consts, global_guard=rng.random() < 0.5)


def libc_desc(rng):
    """lib objects opened on None (the process): libc's int variables optind/opterr and five libc functions that
    are only ever FETCHED (never called through the model)"""
    i32 = ["int", -2 ** 31, 2 ** 31 - 1]
    return dict(libc=True, vars=[list(i32), list(i32)], fns=[["get", 0]] * 5,
                consts=[rng.randrange(-1000, 1000)], global_guard=False)


def rand_val(rng, lo, hi, wraps=False):
    k = rng.random()
    if k < 0.15 and not wraps:          # (a pointer is written through ffi.cast, which wraps instead of refusing)
        return rng.choice([lo - 1, hi + 1, lo - rng.randrange(1, 1000), hi + rng.randrange(1, 1000)])
    if k < 0.4:
        return rng.choice([lo, hi, 0, 1, lo + 1, hi - 1])
    return rng.randrange(lo, hi + 1)


def gen_history(rng, desc, desc_id):
    nl = rng.choice([1, 1, 2, 2, 3, 4])
    modes = [rng.choice(["inline", "ool"]) for _ in range(nl)]
    nv, nf, nc = len(desc["vars"]), len(desc["fns"]), len(desc["consts"])
    m0 = [rand_val(rng, max(lo, -2 ** 62), min(hi, 2 ** 62)) for (_, lo, hi) in desc["vars"]]
    m0 = [min(max(z, lo), hi) for z, (_, lo, hi) in zip(m0, desc["vars"])]
    n = rng.choice([3, 6, 10, 15, 25, 40, 60])
    close_rate = rng.choice([0.03, 0.08, 0.2])
    closed = set()
    ops = []
    for _ in range(n):
        if closed and rng.random() < 0.6:
            l = rng.choice(sorted(closed))
        else:
            l = rng.randrange(nl)
        k = rng.random()
        undecl = rng.random() < 0.04
        if k < close_rate:
            ops.append(["close", l])
            closed.add(l)
            continue
        kind = rng.choice(["read", "read", "write", "write", "fetch", "call", "call", "const", "addr"])
        if kind == "call" and desc.get("libc"):
            kind = "fetch"
        if kind in ("read", "addr"):
            ops.append([kind, l, nv + rng.randrange(2) if undecl else rng.randrange(nv)])
        elif kind == "write":
            v = nv + rng.randrange(2) if undecl else rng.randrange(nv)
            lo, hi = desc["vars"][v][1:] if v < nv else (-5, 5)
            ops.append(["write", l, v, rand_val(rng, lo, hi, v < nv and desc["vars"][v][0].endswith("*"))])
        elif kind == "fetch":
            ops.append(["fetch", l, nf + rng.randrange(2) if undecl else rng.randrange(nf)])
        elif kind == "call":
            f = nf + rng.randrange(2) if undecl else rng.randrange(nf)
            lo, hi = desc["vars"][desc["fns"][f][1]][1:] if f < nf else (-5, 5)
            ops.append(["call", l, f, rand_val(rng, lo, hi, f < nf and desc["vars"][desc["fns"][f][1]][0].endswith("*"))])
        else:
            ops.append(["const", l, nc + rng.randrange(2) if undecl else rng.randrange(nc)])
    return dict(desc_id=desc_id, desc=desc, m0=m0, modes=modes, ops=ops, fresh_ffi=rng.random() < 0.2,
                from_handle=[rng.random() < 0.35 for _ in modes])


def directed(desc, desc_id, mode, from_handle=False):
    """touch everything, close, touch everything again, close again, touch again"""
    nv, nf, nc = len(desc["vars"]), len(desc["fns"]), len(desc["consts"])
    every = []
    for v in range(nv):
        every += [["read", 0, v], ["write", 0, v, desc["vars"][v][2]], ["addr", 0, v]]
    for f in range(nf):
        every += [["fetch", 0, f]] + ([] if desc.get("libc") else [["call", 0, f, 1]])
    for c in range(nc):
        every += [["const", 0, c]]
    other = [["read", 1, 0], ["fetch", 1, 0] if desc.get("libc") else ["call", 1, 0, 1]]
    ops = every[: len(every) // 2] + [["close", 0]] + every + other + [["close", 0]] + every + [["close", 1]] + other
    return dict(desc_id=desc_id, desc=desc, m0=[0] * nv, modes=[mode, "ool" if mode == "inline" else "inline"],
                ops=ops, fresh_ffi=False, from_handle=[from_handle, False])


def generate(ctx):
    rng = ctx.rng
    cases = []
    ndesc = ctx.n(3, 10)
    per = ctx.n(50, 200)
    for d in range(ndesc + 1):
        desc = gen_desc(rng) if d < ndesc else libc_desc(rng)
        cases.append(directed(desc, d, "inline"))
        cases.append(directed(desc, d, "ool"))
        cases.append(directed(desc, d, "inline", True))
        cases.append(directed(desc, d, "ool", True))
        for _ in range(per):
            cases.append(gen_history(rng, desc, d))
    return cases


# ---------------------------------------------------------------- model literals

def c_desc(desc):
    vs = clist([cpair(cz(lo), cz(hi)) for (_, lo, hi) in desc["vars"]])
    fns = clist(["(%s %s)" % ("FGet" if k == "get" else "FSet", cnat(v)) for k, v in desc["fns"]])
    cs = clist([cz(k) for k in desc["consts"]])
    return "{| d_vars := %s; d_fns := %s; d_consts := %s |}" % (vs, fns, cs)


def c_op(op):
    k = op[0]
    if k == "read":
        return "OpRead %s %s" % (cnat(op[1]), cnat(op[2]))
    if k == "write":
        return "OpWrite %s %s %s" % (cnat(op[1]), cnat(op[2]), cz(op[3]))
    if k == "fetch":
        return "OpFetch %s %s" % (cnat(op[1]), cnat(op[2]))
    if k == "call":
        return "OpCall %s %s %s" % (cnat(op[1]), cnat(op[2]), cz(op[3]))
    if k == "const":
        return "OpConst %s %s" % (cnat(op[1]), cnat(op[2]))
    if k == "addr":
        return "OpAddr %s %s" % (cnat(op[1]), cnat(op[2]))
    return "OpClose %s" % cnat(op[1])


EXN = {"ValueError", "FFIError", "AttributeError", "OverflowError"}


def c_out(o):
    if o[0] == "int":
        return "OInt %s" % cz(o[1])
    if o[0] == "none":
        return "ONone"
    if o[0] == "fn" and o[1] >= 0:
        return "OFn %s" % cnat(o[1])
    if o[0] == "ptr" and o[1] >= 0:
        return "OPtr %s" % cnat(o[1])
    if o[0] == "err" and o[1] in EXN:
        return "OErr %s" % o[1]
    return "OErr NoSuchLib"      # anything the model cannot produce: guaranteed disagreement


def c_case(case):
    return cpair(c_desc(case["desc"]), clist([cz(z) for z in case["m0"]]),
                 clist(["(%s, %s)" % ("Inline" if m == "inline" else "Ool", "false" if fh else "true")
                        for m, fh in zip(case["modes"], case.get("from_handle") or [False] * len(case["modes"]))]),
                 clist([c_op(o) for o in case["ops"]]))


def c_result(res):
    return cpair(clist([c_out(o) for o in res["outs"]]), clist([cz(z) for z in res["final"]]))


# ---------------------------------------------------------------- predicate on the implementation

TOUCH = ("read", "write", "fetch", "call")


def predicate(case, res):
    """-> list of (what, op index) where the property text fails on the implementation's own outputs"""
    desc = case["desc"]
    nv, nf = len(desc["vars"]), len(desc["fns"])
    mem = list(case["m0"])
    closed, taken = set(), set()
    bad = []
    for i, (op, out) in enumerate(zip(case["ops"], res["outs"])):
        kind, l = op[0], op[1]
        if kind == "close":
            if out != ["none"]:
                bad.append(("dlclose (%s) returned %r instead of None" % (
                    "again" if l in closed else "first", out), i))
            closed.add(l)
            continue
        if l in closed:
            if kind in TOUCH and out[0] != "err":
                bad.append(("%s through a closed %s lib was not refused: %r" % (kind, case["modes"][l], out), i))
            if kind == "addr" and (l, op[2]) not in taken and out[0] != "err":
                bad.append(("addressof a variable never fetched before the close was not refused: %r" % (out,), i))
            continue
        # open lib: plain C-library behaviour
        if kind == "read" and op[2] < nv and out != ["int", mem[op[2]]]:
            bad.append(("read before close returned %r, library holds %d" % (out, mem[op[2]]), i))
        if kind == "write" and op[2] < nv:
            lo, hi = desc["vars"][op[2]][1:]
            if lo <= op[3] <= hi:
                if out != ["none"]:
                    bad.append(("in-range write before close gave %r" % (out,), i))
                mem[op[2]] = op[3]
            elif out != ["err", "OverflowError"]:
                bad.append(("out-of-range write before close gave %r" % (out,), i))
        if kind == "fetch" and op[2] < nf and out != ["fn", op[2]]:
            bad.append(("function fetch before close gave %r" % (out,), i))
        if kind == "call" and op[2] < nf:
            fk, v = desc["fns"][op[2]]
            lo, hi = desc["vars"][v][1:]
            if fk == "get" or lo <= op[3] <= hi:
                if out != ["int", mem[v]]:
                    bad.append(("call before close returned %r, expected %d" % (out, mem[v]), i))
                if fk == "set":
                    mem[v] = op[3]
        if kind == "addr" and op[2] < nv:
            if out != ["ptr", op[2]]:
                bad.append(("addressof before close gave %r" % (out,), i))
            else:
                taken.add((l, op[2]))
    if res["final"] != mem:
        bad.append(("library memory after the history is %r, expected %r (a closed lib wrote, or an open one "
                    "did not)" % (res["final"], mem), len(case["ops"])))
    return bad


def run_impl(ctx, cases, max_died=3):
    """-> (list of result | None, died).  None: the worker died on that case, or the case was not run
    because max_died crashes had already been seen.  The worker streams one 'R <json>' line per
    finished case, so results before a crash survive it."""
    s = ctx.scratch()
    results = [None] * len(cases)
    start = 0
    died = []
    while start < len(cases) and len(died) < max_died:
        batch = cases[start:]
        descs = {str(c["desc_id"]): c["desc"] for c in batch}
        out, p = s.run_worker("c37_worker.py", dict(cases=batch, descs=descs), timeout=900)
        done = [json.loads(line[2:]) for line in p.stdout.splitlines() if line.startswith("R ")]
        for i, r in enumerate(done):
            results[start + i] = r
        if out is not None:
            break
        if p.returncode == 1 and "Traceback" in p.stderr and "GUARDFAIL" not in p.stderr:
            raise RuntimeError("C37 worker: internal error (rc=%s): %s" % (p.returncode, p.stderr[-1500:]))
        tail = [l for l in p.stderr.splitlines() if not l.startswith("CASE ")]
        died.append((start + len(done), p.returncode, " | ".join(tail[-3:])[-400:]))
        start = start + len(done) + 1
    return results, died


def ddmin(ops, fails_many, max_rounds=30):
    """delta debugging on the op list. fails_many(list of candidate op lists) -> list of bool, one
    implementation run per round (all candidates of the round in one batch)."""
    n = 2
    rounds = 0
    while len(ops) >= 2 and rounds < max_rounds:
        rounds += 1
        chunk = max(1, len(ops) // n)
        cands = [ops[:i] + ops[i + chunk:] for i in range(0, len(ops), chunk)]
        cands = [c for c in cands if c]
        verdicts = fails_many(cands) if cands else []
        hit = next((c for c, v in zip(cands, verdicts) if v), None)
        if hit is not None:
            ops, n = hit, max(n - 1, 2)
        elif chunk == 1:
            break
        else:
            n = min(len(ops), n * 2)
    return ops


def model_disagrees_many(cases, results):
    pairs, idx = [], []
    for i, (c, r) in enumerate(zip(cases, results)):
        if r is not None:
            pairs.append((c_case(c), c_result(r)))
            idx.append(i)
    bad, outs, err = vlib.coq_mismatches(
        ["C37.Model"], "run_case", "pair_eqb (list_eqb out_eqb) (list_eqb Z.eqb)", pairs, shard=40)
    verdict = [False] * len(cases)
    for j in bad:
        verdict[idx[j]] = True
    return verdict, {idx[j]: outs.get(j) for j in bad}, err


def shrink(ctx, case, kind):
    """kind: 'predicate' | 'model' | 'crash'"""

    def fails_many(cands):
        cs = [dict(case, ops=ops) for ops in cands]
        rs, died = run_impl(ctx, cs)
        if kind == "crash":
            dead = {i for i, _, _ in died}
            return [i in dead for i in range(len(cs))]
        if kind == "predicate":
            return [r is not None and bool(predicate(c, r)) for c, r in zip(cs, rs)]
        return model_disagrees_many(cs, rs)[0]

    return dict(case, ops=ddmin(list(case["ops"]), fails_many))


def evaluate(ctx, cases):
    results, died = run_impl(ctx, cases)
    for k, (idx, rc, tail) in enumerate(died):
        small = shrink(ctx, cases[idx], "crash") if (k == 0 and not ctx.replay_mode) else cases[idx]
        ctx.violation(small, "process died or the library vanished underneath an open lib object (rc=%s) while "
                             "running an access history with dlclose: %s ; ops=%s" % (rc, tail, json.dumps(small["ops"])))
    coqcases, owner = [], []
    reported_pred = 0
    for idx, (case, res) in enumerate(zip(cases, results)):
        if res is None:
            continue
        ctx.count(len(case["ops"]))
        bad = predicate(case, res)
        if bad and reported_pred < 2:
            reported_pred += 1
            small = shrink(ctx, case, "predicate") if not ctx.replay_mode else case
            rs, _ = run_impl(ctx, [small])
            bad2 = predicate(small, rs[0]) if rs[0] else bad
            ctx.violation(small, "%s (op #%d of %s; outputs %s)" % (
                bad2[0][0], bad2[0][1], json.dumps(small["ops"]), json.dumps(rs[0]["outs"] if rs[0] else None)))
        elif bad:
            ctx.violation(case, bad[0][0])
        after = 0
        closed = set()
        for op in case["ops"]:
            if op[0] == "close":
                closed.add(op[1])
            elif op[1] in closed:
                after += 1
        if after:
            ctx.nontrivial((case["desc"], case["modes"], case["ops"]))
        ctx.hist("ops", len(case["ops"]))
        ctx.hist("libs", ",".join(sorted(case["modes"])))
        for m, fh in zip(case["modes"], case.get("from_handle") or [False] * len(case["modes"])):
            ctx.hist("lib_object", m + (" from a void* handle" if fh else " from a file name"))
        ctx.hist("library", "libc (dlopen(None))" if case["desc"].get("libc") else
                 "own .so, guard RTLD_GLOBAL" if case["desc"].get("global_guard") else "own .so, guard local")
        ctx.hist("after_close_accesses", min(after, 20))
        for o in res["outs"]:
            ctx.hist("out", o[0] if o[0] != "err" else "err:" + o[1])
        coqcases.append((c_case(case), c_result(res)))
        owner.append(idx)
    bad, outs, err = vlib.coq_mismatches(
        ["C37.Model"], "run_case", "pair_eqb (list_eqb out_eqb) (list_eqb Z.eqb)", coqcases, shard=60)
    if err:
        ctx.obligation_broken("C37 model evaluation", err)
    for j in bad[:(0 if ctx.violations else 2)]:
        case = cases[owner[j]]
        small = shrink(ctx, case, "model") if not ctx.replay_mode else case
        rs, _ = run_impl(ctx, [small])
        _, mouts, _ = model_disagrees_many([small], rs)
        mout = mouts.get(0)
        ctx.mismatch(small, "model run_case = %s ; implementation outs=%s final=%s" % (
            mout, json.dumps(rs[0]["outs"]), rs[0]["final"]), "C37.Model.run vs api.py/cdlopen.c/lib_obj.c dlopen libs")
    for c in cases[:2]:
        ctx.sample(dict(c, ops=c["ops"][:12]))


def run(ctx):
    ctx.cov["rule"] = ("random histories of read/write/fetch/call/const/addressof/dlclose over 1-4 lib objects "
                       "(in-line and out-of-line mixed) opened on one gcc-compiled library (1-4 integer globals of "
                       "13 C types incl. enum-typed, pointer-typed and struct-typed globals, getter/setter functions, #define constants), 60% of the operations after the "
                       "first close aimed at closed libs, 4% undeclared names, 15% out-of-range values; plus a "
                       "directed history per library and mode touching every name before and after close. Half of the "
                       "libraries have their guard handle opened RTLD_GLOBAL (symbols resolvable through dlsym(NULL, ..) "
                       "after a close); 35% of the lib objects are made from a caller-supplied `void *` handle (ffi.dlopen(handle cdata), "
                       "auto_close = 0), in both modes; one extra library per run is the process itself (dlopen(None): libc's "
                       "optind/opterr and never-called libc functions). "
                       "Non-trivial = history with at least one access to a lib after its close; distinct by "
                       "(library, modes, ops). evaluations = operations executed on the implementation.")
    ctx.assumptions += [
        "coq/C37/Gen.v: the statement lists of FFILibrary.__cffi_close__ (api.py, via ast), of dl_close_lib's "
        "`if (dl_handle != NULL)` block and of ffi_dlclose's `if (libhandle != NULL)` block, regenerated on every run "
        "(fail closed to the snapshot); the model's OpClose is defined from them, C37_gen_close_paths and all of "
        "Proofs.v are re-proved on the current text",
        "hand-written model C37/Model.v of FFILibrary (api.py), dl_* (_cffi_backend.c), ffi_dlclose/cdlopen_fetch "
        "(cdlopen.c) and lib_getattr/lib_setattr caching (lib_obj.c); tied by this run's differential histories",
        "glibc dlopen/dlsym/dlclose; the test library is kept mapped by a guard handle, so a use-after-close shows "
        "as a wrong result rather than only as a crash (crashes are caught too)",
        "calling a function object, or dereferencing a pointer, obtained BEFORE the close is outside the property "
        "(documented as undefined) and is not exercised"]
    from props import c29
    c29.settle_obligations(ctx, "C37", GEN, translate_close_paths)
    evaluate(ctx, generate(ctx))


MANIFEST = dict(
    technique="Coq proof (invariant + refinement of a cache-free specification over all access histories, both "
              "dlopen front ends, owned and borrowed handles, several libs on one shared library) over a model whose "
              "close paths and closed-tests are REGENERATED from the source (C37/Gen.v) + differential histories "
              "against the real implementation on a gcc-compiled test library",
    text="Proved for every history, both modes (in-line FFILibrary/__cffi_close__/dl_check_closed; out-of-line "
         "ffi_dlclose/cdlopen_fetch/l_dict caching), owned and caller-supplied handles (lauto), several lib objects on "
         "one library: after dlclose(lib) every variable read/write, function fetch and call through lib is refused and "
         "leaves library memory untouched (C37_after_close_refused; C37_after_close_addr_refused for addresses taken "
         "before); close is idempotent and returns None (C37_close_idempotent, C37_close_returns_none); before its close "
         "a lib behaves as the plain library (C37_before_close_unchanged); only dlclose closes and only its own lib "
         "(C37_only_close_closes, C37_other_libs_untouched); the model refines a cache-free specification "
         "(C37_refines_spec). Regenerated on every run into C37/Gen.v and consulted by the model's OpClose/usable: the "
         "statement lists of __cffi_close__ (api.py, ast), dl_close_lib and ffi_dlclose (handle reset and dict clearing "
         "present, before dlclose out-of-line: C37_gen_close_paths), the guard of the reset is the NULL test alone "
         "(C37_gen_handle_reset_unconditional), the closed test precedes dlsym in cdlopen_fetch and dl_load_function/"
         "dl_read_variable/dl_write_variable (C37_gen_closed_test_precedes_dlsym). Correspondence only: process "
         "survival, lib_getattr/lib_setattr caching order, that in-line variable properties re-enter the backend on "
         "every access; not covered: dlopen constants of out-of-line modules, dealloc-time auto-close.",
    note="Trusted: Coq kernel; the hand-written parts of C37/Model.v (caching logic of lib_getattr/lib_setattr and of "
         "api.py accessors; tied by differential testing) — the close paths, guards and check-before-dlsym facts are "
         "regenerated, fail closed; gcc, glibc dl*; CPython attribute lookup order (data descriptor on the class before "
         "the instance dict before __getattr__). Theorems closed under the global context.",
    design_ref="DESIGN.md §4 C37")
