"""C26 worker: drives the real init_once implementations through chosen schedules.

Two modes
  impl = "py":  cffi.api.FFI.init_once.  The cache dict is replaced by a dict subclass, `allocate_lock`
                (cffi.api module global) by a wrapper around the real lock, f is the harness's.  Every
                shared operation (read / setdefault / store of the cache, acquire / release of the lock,
                entry of f, outcome of f) first *parks* the calling thread until the scheduler grants it.
  impl = "c":   _cffi_backend.FFI().init_once (ffi_obj.c).  The tag is an object whose __hash__ parks,
                so every dict operation of the C code is a scheduling point; the PyThread lock cannot be
                wrapped: acquire is taken as soon as the lock is free and the winner among waiters is the
                implementation's choice (observed, then checked against the model).

No sleeping: all waiting is on messages sent by the parked threads; a missing message is a timeout
(generous), reported to the caller, which retries once in a fresh process.

The module also contains the Python mirror of coq/C26/Model.v used to *generate* schedules and
expectations; every schedule actually replayed is re-validated inside Coq by the caller.
"""
import sys
import time
import threading
import _thread
import queue

# ------------------------------------------------------------------ mirror of C26/Model.v

K_READ, K_SETDEFAULT, K_ACQUIRE, K_CALLF, K_FRET, K_FRAISE, K_STORE, K_RELEASE = 1, 2, 3, 4, 5, 6, 7, 8
KIND_OF = dict(IRead=K_READ, ISetDefault=K_SETDEFAULT, ISetDefaultX=K_SETDEFAULT, IAcquire=K_ACQUIRE,
               ICallF=K_CALLF, IStore=K_STORE, IRelease=K_RELEASE)
LOCAL = ("IIfDone", "IRetX", "IRetResult", "IRaise", "INewX")

C_PROG = [("IRead", 2, 1), ("ISetDefault", 2), ("IIfDone", 3, 4), ("IRetX",), ("IAcquire", 5),
          ("IRead", 6, 9), ("IIfDone", 7, 9), ("IRelease", 8), ("IRetX",), ("ICallF", 10, 13),
          ("IStore", 11), ("IRelease", 12), ("IRetResult",), ("IRelease", 14), ("IRaise", "FExn")]


def m_init(n):
    return dict(th=[dict(pc=("At", 0), x=None, res=None, held=None, fraised=False, nstart=0)
                    for _ in range(n)], cache=None, owner={}, nextlock=0, ndone=0)


def _upd(s, t, me, **shared):
    s2 = dict(s)
    th = list(s["th"])
    th[t] = me
    s2["th"] = th
    s2.update(shared)
    return s2


def m_step(prog, s, t, o):
    """one atomic step of thread t (o: 1 = f returns 100+t, 2 = f raises, else ignored); None = not enabled"""
    me = s["th"][t]
    tag, n = me["pc"][0], me["pc"][1] if len(me["pc"]) > 1 else None
    if tag in ("Ret", "Raised", "Stuck"):
        return None
    ins = prog[n] if n < len(prog) else None
    stuck = lambda: _upd(s, t, dict(me, pc=("Stuck",)))
    if tag == "InF":
        if ins is None or ins[0] != "ICallF":
            return stuck()
        if o == 1:
            return _upd(s, t, dict(me, pc=("At", ins[1]), res=100 + t), ndone=s["ndone"] + 1)
        return _upd(s, t, dict(me, pc=("At", ins[2]), fraised=True))
    if ins is None:
        return stuck()
    k = ins[0]
    c = s["cache"]
    if k == "IRead":
        if c is None:
            return _upd(s, t, dict(me, pc=("At", ins[2])))
        return _upd(s, t, dict(me, pc=("At", ins[1]), x=c))
    if k == "ISetDefault":
        if c is None:
            l = s["nextlock"]
            return _upd(s, t, dict(me, pc=("At", ins[1]), x=("P", l)), cache=("P", l), nextlock=l + 1)
        return _upd(s, t, dict(me, pc=("At", ins[1]), x=c), nextlock=s["nextlock"] + 1)
    if k == "INewX":
        l = s["nextlock"]
        return _upd(s, t, dict(me, pc=("At", ins[1]), x=("P", l)), nextlock=l + 1)
    if k == "ISetDefaultX":
        if me["x"] is None:
            return stuck()
        if c is None:
            return _upd(s, t, dict(me, pc=("At", ins[2])), cache=me["x"])
        return _upd(s, t, dict(me, pc=("At", ins[2]), x=c if ins[1] else me["x"]))
    if k == "IIfDone":
        if me["x"] is None:
            return stuck()
        return _upd(s, t, dict(me, pc=("At", ins[1] if me["x"][0] == "D" else ins[2])))
    if k == "IAcquire":
        if me["x"] is None or me["x"][0] != "P":
            return stuck()
        l = me["x"][1]
        if s["owner"].get(l) is not None:
            return None
        return _upd(s, t, dict(me, pc=("At", ins[1]), held=l), owner={**s["owner"], l: t})
    if k == "ICallF":
        return _upd(s, t, dict(me, pc=("InF", n), nstart=me["nstart"] + 1))
    if k == "IStore":
        if me["res"] is None:
            return stuck()
        return _upd(s, t, dict(me, pc=("At", ins[1])), cache=("D", me["res"]))
    if k == "IRelease":
        if me["held"] is None:
            return stuck()
        return _upd(s, t, dict(me, pc=("At", ins[1]), held=None), owner={**s["owner"], me["held"]: None})
    if k == "IRetX":
        if me["x"] is None or me["x"][0] != "D":
            return stuck()
        return _upd(s, t, dict(me, pc=("Ret", me["x"][1])))
    if k == "IRetResult":
        if me["res"] is None:
            return stuck()
        return _upd(s, t, dict(me, pc=("Ret", me["res"])))
    if k == "IRaise":
        return _upd(s, t, dict(me, pc=("Raised", ins[1])))
    raise AssertionError(k)


def m_kind(prog, s, t, o=0):
    """kind code of t's next visible operation (None when finished)"""
    pc = s["th"][t]["pc"]
    if pc[0] == "InF":
        return K_FRET if o == 1 else K_FRAISE
    if pc[0] != "At":
        return None
    if pc[1] >= len(prog):
        return 99
    return KIND_OF.get(prog[pc[1]][0], 99)


def m_vstep(prog, s, t, o):
    s2 = m_step(prog, s, t, o)
    if s2 is None:
        return None
    for _ in range(len(prog)):
        pc = s2["th"][t]["pc"]
        if pc[0] == "At" and pc[1] < len(prog) and prog[pc[1]][0] in LOCAL:
            s2 = m_step(prog, s2, t, 2)
        else:
            break
    return s2


def m_finished(s, t):
    return s["th"][t]["pc"][0] not in ("At", "InF")


def m_cache_code(c):
    return [0] if c is None else [1] if c[0] == "P" else [2, c[1]]


def m_outcome_code(pc):
    if pc[0] in ("At", "InF"):
        return [0]
    if pc[0] == "Ret":
        return [1, pc[1]]
    if pc[0] == "Raised":
        return [2] if pc[1] == "KeyErr" else [3]
    return [4]


def m_finals(s, n):
    out = []
    for t in range(n):
        out += m_outcome_code(s["th"][t]["pc"]) + [s["th"][t]["nstart"]]
    return out + m_cache_code(s["cache"]) + [s["ndone"]]


ENUM_CAP = 40000


def enum_maximal(prog, n, limit=ENUM_CAP):
    """all maximal visible schedules of n threads (DFS), at most `limit` of them (a broken program can have
    astronomically many); returns lists of [t, o]"""
    count = [0]
    out = []

    def rec(s, sched):
        if limit is not None and count[0] >= limit:
            return
        any_en = False
        for t in range(n):
            if m_finished(s, t):
                continue
            outs = (1, 2) if s["th"][t]["pc"][0] == "InF" else (0,)
            for o in outs:
                s2 = m_vstep(prog, s, t, o)
                if s2 is None:
                    continue
                any_en = True
                sched.append([t, o])
                rec(s2, sched)
                sched.pop()
        if not any_en:
            count[0] += 1
            out.append([list(x) for x in sched])

    rec(m_init(n), [])
    return out


# ------------------------------------------------------------------ scheduler

class Abort(BaseException):
    pass


class Unexpected(Exception):
    """the implementation did something the model does not predict at this point"""


class FExc(Exception):
    """what the harness's f raises"""


TAGVAL = "c26-tag"

# tags of every hashable kind ("every tag"); in particular strings that are attribute / dunder names, which a
# cache that is not a plain empty dict (a module or instance __dict__, a class namespace) would already contain.
# A case names its tag by index (`tagidx`); index 0 is the default tag.
TAGS = [TAGVAL, "__name__", "__doc__", "__package__", "__loader__", "__spec__", "__dict__", "__class__", "__init__",
        "__file__", "__builtins__", "__module__", "__weakref__", "__hash__", "", "tag", "_init_once_cache", "self",
        None, 0, 1, -1, 2 ** 70, True, False, (), (1, "a"), ("__name__",), (None, (0, "")), 1.5, float("inf"),
        b"tag", b"", frozenset([1, 2]), Ellipsis, int, len]


def tag_value(idx):
    return TAGS[idx or 0]


def parking_tag(ctl, val):
    """C implementation: an object equal to `val` (same hash, base-type equality) whose __hash__ is a scheduling
    point; None when the type of val cannot be subclassed (then only the unscheduled `plain` runs use it)"""
    base = type(val)
    if base not in (str, int, tuple, float, bytes, frozenset):
        return None

    class PT(base):
        def __hash__(self):
            ctl.park("dict")
            ctl.log("op", "dict")
            return base.__hash__(self)
    return PT(val)


class Ctl:
    def __init__(self, n, timeout):
        self.n = n
        self.timeout = timeout
        self.msgs = queue.SimpleQueue()
        self.go = [_thread.allocate_lock() for _ in range(n)]     # used as binary semaphores
        for l in self.go:
            l.acquire()
        self.ident = {}
        self.grant_val = [None] * n
        self.abort = False
        self.tid = {}            # thread ident -> t
        self.events = []         # (t, what, extra) in real order; only one thread runs at a time
        self.peek = lambda: None
        self.tagidx = None

    def me(self):
        return self.tid.get(threading.get_ident())

    def park(self, kind):
        t = self.me()
        if t is None:            # not one of our threads (e.g. the main thread probing): no scheduling
            return None
        self.msgs.put((t, "park", kind))
        self.go[t].acquire()
        if self.abort:
            raise Abort()
        return self.grant_val[t]

    def log(self, what, extra=None):
        if self.me() is not None:
            self.events.append([self.me(), what, extra, self.peek()])


def make_f(ctl):
    def f():
        ctl.park(K_CALLF)
        ctl.log("fenter")
        o = ctl.park("fout")
        if o == 1:
            r = 100 + ctl.me()
            ctl.log("fret", r)
            return r
        ctl.log("fraise")
        raise FExc()
    return f


def thread_main(ctl, t, call, started):
    ctl.tid[threading.get_ident()] = t
    ctl.ident[t] = threading.get_ident()
    started.release()
    try:
        ctl.park("start")        # not a model step: all threads exist before the first step
        try:
            r = call()
            out = [1, r if isinstance(r, int) else -1]
        except FExc:
            out = [3]
        except KeyError:
            out = [2]
        except Abort:
            raise
        except BaseException as e:     # noqa
            out = [4, type(e).__name__]
        ctl.events.append([t, "finish", out, ctl.peek()])
        ctl.msgs.put((t, "finish", out))
    except Abort:
        pass


# ---- implementation adapters

def setup_py(ctl):
    import cffi
    import cffi.api as api
    real_alloc = api.__dict__.get("_c26_real_alloc") or api.allocate_lock
    api._c26_real_alloc = real_alloc

    class ICache(dict):
        def __getitem__(self, k):
            ctl.park(K_READ)
            try:
                return dict.__getitem__(self, k)
            finally:
                ctl.log("op", K_READ)

        def setdefault(self, k, v=None):
            ctl.park(K_SETDEFAULT)
            try:
                return dict.setdefault(self, k, v)
            finally:
                ctl.log("op", K_SETDEFAULT)

        def __setitem__(self, k, v):
            ctl.park(K_STORE)
            try:
                return dict.__setitem__(self, k, v)
            finally:
                ctl.log("op", K_STORE)

        def get(self, k, d=None):
            ctl.park(K_READ)
            try:
                return dict.get(self, k, d)
            finally:
                ctl.log("op", K_READ)

    class ILock(object):
        def __init__(self):
            self.real = real_alloc()

        def acquire(self, blocking=True, timeout=-1):
            if ctl.me() is None:
                return self.real.acquire(blocking, timeout)
            while True:
                ctl.park(K_ACQUIRE)
                if self.real.acquire(False):
                    ctl.log("op", K_ACQUIRE)
                    return True
                ctl.log("acquire-blocked")
                if not blocking:
                    return False

        def release(self):
            ctl.park(K_RELEASE)
            self.real.release()
            ctl.log("op", K_RELEASE)

        def __enter__(self):
            self.acquire()
            return self

        def __exit__(self, *a):
            self.release()

        def locked(self):
            return self.real.locked()

    api.allocate_lock = ILock
    ffi = cffi.FFI()
    # the instrumented dict starts with exactly what the constructor put into the real cache (nothing, on the
    # unchanged tree): the initial state is the implementation's, not the harness's
    cache = ICache()
    dict.update(cache, ffi._init_once_cache)
    ffi._init_once_cache = cache
    tagval = tag_value(ctl.tagidx)
    missing = object()

    def peek():
        v = dict.get(cache, tagval, missing)
        if v is missing:
            return [0]
        if isinstance(v, tuple) and len(v) == 2 and v[0] is True:
            return [2, v[1] if isinstance(v[1], int) else -1]
        return [1]
    ctl.peek = peek
    f = make_f(ctl)
    tags = getattr(ctl, "tags", None)
    if tags:
        return (lambda: ffi.init_once(f, tagval if tags[ctl.me()] == 0 else "c26-tag-%d" % tags[ctl.me()])), \
               (lambda: None)
    return (lambda: ffi.init_once(f, tagval)), (lambda: None)


def setup_c(ctl):
    import _cffi_backend
    ffi = _cffi_backend.FFI()

    class Tag(object):
        def __hash__(self):
            ctl.park("dict")
            ctl.log("op", "dict")
            return 12345

        def __eq__(self, other):
            return self is other
    tag = Tag()
    if ctl.tagidx:
        tag = parking_tag(ctl, tag_value(ctl.tagidx))
        if tag is None:
            raise ValueError("tag %r cannot carry a scheduling point" % (tag_value(ctl.tagidx),))
    f = make_f(ctl)

    def probe():
        """final cache state by behaviour: a late call either returns the cached value or calls f"""
        called = []
        try:
            r = ffi.init_once(lambda: called.append(1) or -7, tag)
        except BaseException as e:       # noqa
            return [9, type(e).__name__]
        return [1] if called else [2, r if isinstance(r, int) else -1]
    return (lambda: ffi.init_once(f, tag)), probe


# ---- one case

def run_case(impl, prog, n, case, timeout):
    """case: dict(sched=[[t,o],...])  explicit visible schedule (py), or dict(decisions=[...]) (c / free choice).
    Returns dict(status, sched (model schedule actually followed), events, finals_impl)."""
    ctl = Ctl(n, timeout)
    ctl.tagidx = case.get("tagidx")
    call, probe = (setup_py if impl == "py" else setup_c)(ctl)
    controllable = (lambda k: True) if impl == "py" else (lambda k: k not in (K_ACQUIRE, K_RELEASE))
    started = threading.Semaphore(0)
    threads = [threading.Thread(target=thread_main, args=(ctl, t, call, started), daemon=True) for t in range(n)]
    for th in threads:
        th.start()
    for _ in threads:
        started.acquire()
    parked = {}          # t -> kind it announced
    finished = {}        # t -> outcome
    status = "ok"
    detail = ""

    def recv(_unused=None, tmo=None):
        return ctl.msgs.get(timeout=tmo or timeout)

    def absorb(m):
        t, what, val = m
        if what == "park":
            parked[t] = val
        else:
            finished[t] = val
            parked.pop(t, None)

    try:
        for _ in range(n):
            absorb(recv(None))
        # release the 'start' parks: each thread runs to its first real operation
        for t in range(n):
            ctl.go[t].release()
            parked.pop(t, None)
            absorb(recv(None))
        s = m_init(n)
        sched = []
        waiters = set()      # c mode: threads believed to be blocked inside PyThread_acquire_lock
        explicit = case.get("sched")
        decisions = list(case.get("decisions") or [])
        step_i = 0
        free_run = False

        def coarse(k):
            return "dict" if (impl == "c" and k in (K_READ, K_SETDEFAULT, K_STORE)) else k

        def advance_auto(u):
            """c mode: advance u over acquire/release in the model; returns what message to expect from u
            ('finish' | ('park', kind) | None when u blocks on the lock) and whether a waiter must wake"""
            nonlocal s
            wake = False
            while True:
                if m_finished(s, u):
                    return "finish", wake
                if s["th"][u]["pc"][0] == "InF":
                    return ("park", "fout"), wake
                k = m_kind(prog, s, u, 0)
                if controllable(k):
                    return ("park", coarse(k)), wake
                if k == K_ACQUIRE:
                    s2 = m_vstep(prog, s, u, 0)
                    if s2 is None:
                        waiters.add(u)
                        return None, wake
                    s = s2
                    sched.append([u, 0])
                    continue
                if k == K_RELEASE:
                    s = m_vstep(prog, s, u, 0)
                    sched.append([u, 0])
                    wake = wake or bool(waiters)
                    continue
                raise Unexpected("model: thread %d at unknown op %r" % (u, k))

        def check_msg(u, want, m):
            if want == "finish":
                if m[1] != "finish":
                    raise Unexpected("thread %d parked at %r, model says it returns/raises" % (u, m[2]))
            elif m[1] != "park" or m[2] != want[1]:
                raise Unexpected("thread %d: %s %r, model expects park at %r" % (u, m[1], m[2], want[1]))

        def wait_blocked_in_c(u):
            """c mode: u is expected to block in PyThread_acquire_lock.  Wait until its topmost Python frame
            is the caller of init_once: seen from here (we hold the GIL) that means u is inside the C function
            in a region that released the GIL, i.e. the lock wait; the dict operation it was granted is done."""
            deadline = time.monotonic() + timeout
            while True:
                fr = sys._current_frames().get(ctl.ident[u])
                if fr is not None and fr.f_code is call.__code__:
                    return
                if time.monotonic() > deadline:
                    raise queue.Empty
                time.sleep(0)

        def after_grant(u):
            want, wake = advance_auto(u)
            need_u = want is not None
            need_w = wake
            if want is None and impl == "c":
                wait_blocked_in_c(u)
            while need_u or need_w:
                m = recv(None)
                absorb(m)
                if need_u and m[0] == u:
                    check_msg(u, want, m)
                    need_u = False
                elif need_w and m[0] in waiters and m[1] == "park":
                    w = m[0]
                    waiters.discard(w)
                    nonlocal_s_acquire(w, m)
                    need_w = False
                else:
                    raise Unexpected("unexpected message %r" % (m,))

        def nonlocal_s_acquire(w, m):
            nonlocal s
            if m_kind(prog, s, w, 0) != K_ACQUIRE:
                raise Unexpected("waiter %d is not at acquire in the model" % w)
            s2 = m_vstep(prog, s, w, 0)
            if s2 is None:
                raise Unexpected("waiter %d got the lock while the model says it is held" % w)
            s = s2
            sched.append([w, 0])
            wk = coarse(m_kind(prog, s, w, 0))
            if wk != m[2]:
                raise Unexpected("waiter %d parked at %r, model expects %r" % (w, m[2], wk))

        try:
            # the first operation of each thread must be what the model says
            for t in range(n):
                want, _w = advance_auto(t)
                if t in finished or parked.get(t) != want[1]:
                    raise Unexpected("thread %d first parks at %r, model expects %r" % (t, parked.get(t), want))
            while True:
                grantable = sorted(t for t in parked if t not in waiters and
                                   m_vstep(prog, s, t, 1 if parked[t] == "fout" else 0) is not None)
                lenient = bool(case.get("lenient"))
                pick = None
                if explicit is not None and step_i < len(explicit):
                    t, o = explicit[step_i]
                    if t in grantable:
                        pick = (t, o)
                    elif not lenient:
                        raise Unexpected("schedule grants thread %d which is not parked (parked: %r)" % (t, grantable))
                elif explicit is not None and not lenient:
                    break
                if pick is None:
                    if not grantable:
                        break
                    d = decisions[step_i] if step_i < len(decisions) else (step_i * 7 + 3)
                    pick = (grantable[d % len(grantable)], 1 + (d // 16) % 2)
                t, o = pick
                if parked[t] == "fout":
                    o = o if o in (1, 2) else 1
                else:
                    o = 0
                step_i += 1
                # the model must allow it
                k = m_kind(prog, s, t, o)
                s2 = m_vstep(prog, s, t, o)
                if s2 is None:
                    raise Unexpected("model: thread %d not enabled" % t)
                s = s2
                sched.append([t, o])
                ctl.grant_val[t] = o
                del parked[t]
                ctl.go[t].release()
                after_grant(t)
        except Unexpected as e:
            status, detail = "unexpected", str(e)
            free_run = True
        if free_run:
            # keep the implementation going (round robin over parked threads, every f returns) so that the
            # property predicates can be evaluated on a complete run
            guard = 0
            try:
                while len(finished) < n and guard < 400:
                    guard += 1
                    grantable = sorted(parked)
                    if not grantable:
                        absorb(recv(tmo=5))
                        continue
                    t = grantable[guard % len(grantable)]
                    ctl.grant_val[t] = 1
                    del parked[t]
                    ctl.go[t].release()
                    try:
                        absorb(recv(tmo=2 if impl == "c" else 10))
                    except queue.Empty:
                        if impl != "c":
                            raise
                    while True:      # drain whatever else arrived
                        try:
                            absorb(ctl.msgs.get_nowait())
                        except queue.Empty:
                            break
            except queue.Empty:
                detail += " | free run stalled"
    except queue.Empty:
        status, detail = ("timeout", "no message within %ss; parked=%r finished=%r" % (timeout, parked, sorted(finished)))
    unfinished = [t for t in range(n) if t not in finished]
    final_probe = None
    if not unfinished:
        for th in threads:
            th.join(timeout)
        final_probe = probe()
    else:
        ctl.abort = True
        for t in range(n):
            ctl.go[t].release()
    import cffi.api as api
    if hasattr(api, "_c26_real_alloc"):
        api.allocate_lock = api._c26_real_alloc
    return dict(status=status, detail=detail, sched=sched, events=ctl.events,
                outcomes=[finished.get(t) for t in range(n)], probe=final_probe, unfinished=unfinished)


PLAIN_OUTCOMES = (2, 1, 1)      # call 0: f raises; call 1: f returns 101; call 2: f would return 102


def run_plain(impl, case):
    """No scheduler, no instrumentation: three calls one after the other on an UNTOUCHED new FFI object (in-line
    cffi.FFI() or _cffi_backend.FFI()) with the tag of the case.  As a schedule of the model this is the 3-thread
    run in which each call finishes before the next starts; the events have the format `predicates` reads."""
    tag = tag_value(case.get("tagidx"))
    if impl == "py":
        import cffi
        ffi = cffi.FFI()
    else:
        import _cffi_backend
        ffi = _cffi_backend.FFI()
    events, outcomes = [], []
    for t, o in enumerate(PLAIN_OUTCOMES):
        def f(t=t, o=o):
            events.append([t, "fenter", None, None])
            if o == 1:
                events.append([t, "fret", 100 + t, None])
                return 100 + t
            events.append([t, "fraise", None, None])
            raise FExc()
        try:
            r = ffi.init_once(f, tag)
            out = [1, r if isinstance(r, int) and not isinstance(r, bool) else -1]
        except FExc:
            out = [3]
        except KeyError:
            out = [2]
        except BaseException as e:     # noqa
            out = [4, type(e).__name__]
        events.append([t, "finish", out, None])
        outcomes.append(out)
    return dict(status="ok", detail="", sched=[[t, o] for t, o in enumerate(PLAIN_OUTCOMES)], events=events,
                outcomes=outcomes, probe=None, unfinished=[])


def run_explore(n, case, timeout):
    """Model-free run of the Python implementation: the schedule is a prefix of choices [t, o] followed by
    'first choosable thread'; returns, per step, the choice made and the alternatives that existed, so that the
    caller can enumerate the implementation's own schedule tree (stateless search).  A thread whose acquire
    just failed is not choosable again until some thread has released a lock."""
    ctl = Ctl(n, timeout)
    ctl.tags = case.get("tags")
    ctl.tagidx = case.get("tagidx")
    call, probe = setup_py(ctl)
    started = threading.Semaphore(0)
    threads = [threading.Thread(target=thread_main, args=(ctl, t, call, started), daemon=True) for t in range(n)]
    for th in threads:
        th.start()
    for _ in threads:
        started.acquire()
    parked, finished, sleeping = {}, {}, set()
    steps = []
    status, detail = "ok", ""

    def absorb(m):
        t, what, val = m
        if what == "park":
            parked[t] = val
        else:
            finished[t] = val
            parked.pop(t, None)
    try:
        for _ in range(n):
            absorb(ctl.msgs.get(timeout=timeout))
        for t in range(n):
            ctl.go[t].release()
            parked.pop(t, None)
            absorb(ctl.msgs.get(timeout=timeout))
        prefix = [list(x) for x in case.get("prefix", [])]
        i = 0
        while len(finished) < n and i < 200:
            alts = []
            for t in sorted(parked):
                if t in sleeping:
                    continue
                alts += [[t, 1], [t, 2]] if parked[t] == "fout" else [[t, 0]]
            if not alts:
                status, detail = "stuck", "no thread can be scheduled: parked=%r sleeping=%r" % (parked, sorted(sleeping))
                break
            ch = prefix[i] if i < len(prefix) and prefix[i] in alts else alts[0]
            steps.append(dict(chosen=ch, alts=alts))
            i += 1
            t, o = ch
            was = parked.pop(t)
            nev = len(ctl.events)
            ctl.grant_val[t] = o
            ctl.go[t].release()
            absorb(ctl.msgs.get(timeout=timeout))
            for ev in ctl.events[nev:]:
                if ev[0] == t and ev[1] == "acquire-blocked":
                    sleeping.add(t)
                if ev[1] == "op" and ev[2] == K_RELEASE:
                    sleeping.clear()
    except queue.Empty:
        status, detail = "timeout", "no message within %ss; parked=%r finished=%r" % (timeout, parked, sorted(finished))
    unfinished = [t for t in range(n) if t not in finished]
    if unfinished:
        ctl.abort = True
        for t in range(n):
            try:
                ctl.go[t].release()
            except RuntimeError:
                pass
    else:
        for th in threads:
            th.join(timeout)
    import cffi.api as api
    if hasattr(api, "_c26_real_alloc"):
        api.allocate_lock = api._c26_real_alloc
    return dict(status=status, detail=detail, steps=steps, sched=[st["chosen"] for st in steps], events=ctl.events,
                outcomes=[finished.get(t) for t in range(n)], probe=None, unfinished=unfinished)


def explore_tree(n, limit, timeout, seed, tags=None, max_seconds=None):
    """stateless depth-first search over the implementation's own schedule tree (see run_explore)"""
    import hashlib
    import random
    rng = random.Random(seed) if seed is not None else None
    todo = [[]]
    runs, bad, nontrivial = 0, [], []
    timeouts = 0
    t_start = time.monotonic()
    while todo and runs < limit and len(bad) < 3 and timeouts < 2:
        if max_seconds is not None and time.monotonic() - t_start > max_seconds:
            break
        prefix = todo.pop(rng.randrange(len(todo)) if rng is not None else -1)
        r = run_explore(n, dict(prefix=prefix, tags=tags), timeout)
        runs += 1
        if tags:
            b = []
            for tg in sorted(set(tags)):      # the property, separately for the callers of each tag
                b += predicates(r, n, [t for t in range(n) if tags[t] == tg])
        else:
            b = predicates(r, n)
        if r["status"] in ("timeout", "stuck"):
            timeouts += r["status"] == "timeout"
            b.append("no call can make progress although no f is running (%s; threads %r unfinished): %s"
                     % (r["status"], r["unfinished"], r["detail"]))
        if b:
            bad.append(dict(sched=r["sched"], outcomes=r["outcomes"], events=r["events"], bad=b))
            continue
        nontrivial.append(hashlib.sha1(repr(r["sched"]).encode()).hexdigest()[:12])
        for i in range(len(prefix), len(r["steps"])):
            st = r["steps"][i]
            for alt in st["alts"]:
                if alt != st["chosen"]:
                    todo.append(r["sched"][:i] + [alt])
    return dict(runs=runs, exhausted=not todo, bad=bad, nontrivial=nontrivial)


def predicates(res, n, threads=None):
    """the property, decided on the implementation's own events (independent of the model);
    `threads`: only the callers of one tag"""
    if threads is not None:
        res = dict(res, events=[e for e in res["events"] if e[0] in threads], probe=None,
                   outcomes=[o if t in threads else None for t, o in enumerate(res["outcomes"])])
    bad = []
    inside = None
    completed = []          # (t, r)
    raised_f = set()
    started_after = False
    cache_at_raise = {}
    for t, what, extra, peek in res["events"]:
        if what == "fenter":
            if inside is not None:
                bad.append("f of thread %d started while f of thread %d was still running" % (t, inside))
            if completed:
                bad.append("f of thread %d started after f of thread %d had completed normally" % (t, completed[0][0]))
            inside = t
        elif what == "fret":
            completed.append((t, extra))
            inside = None
        elif what == "fraise":
            raised_f.add(t)
            inside = None
            cache_at_raise[t] = peek
        elif what == "op" and t in cache_at_raise and extra == K_STORE:
            bad.append("thread %d stored into the cache after its own f raised" % t)
    if len(completed) > 1:
        bad.append("%d calls of f completed normally" % len(completed))
    for t in range(n):
        o = res["outcomes"][t]
        if o is None:
            continue
        if o[0] == 1:
            if not completed or o[1] != completed[0][1]:
                bad.append("thread %d returned %r, the completed f returned %r" % (t, o[1], completed[:1]))
            if t in raised_f:
                bad.append("thread %d returned normally although its own f raised" % t)
        elif o[0] == 3:
            if t not in raised_f:
                bad.append("thread %d raised f's exception without having run f" % t)
        else:
            bad.append("thread %d ended with %r" % (t, o))
    if res["probe"] is not None and res["probe"] and res["probe"][0] == 2 and completed \
            and res["probe"][1] != completed[0][1]:
        bad.append("a later call returned %r, the completed f returned %r" % (res["probe"][1], completed[0][1]))
    if res["probe"] is not None and res["probe"] and res["probe"][0] == 2 and not completed:
        bad.append("a later call found a cached result although no f completed")
    if res["probe"] is not None and res["probe"] and res["probe"][0] == 1 and completed:
        bad.append("a later call ran f again although f had completed normally (nothing cached)")
    return bad



def main(payload):
    sys.setswitchinterval(1e-4)
    prog = [tuple(i) for i in payload["prog"]]
    out = []
    timeouts = 0
    if payload.get("explore_tree"):
        e = payload["explore_tree"]
        return dict(results=[], tree=explore_tree(e["n"], e["limit"], payload.get("timeout", 30), e.get("seed"),
                                                  e.get("tags"), e.get("max_seconds")))
    for case in payload["cases"]:
        if timeouts >= 2:       # a deadlocking implementation: do not wait for every remaining case
            out.append(dict(status="skipped", detail="earlier cases timed out", sched=[], events=[],
                            outcomes=[None] * case["n"], probe=None, unfinished=[]))
            continue
        if case.get("explore"):
            out.append(run_explore(case["n"], case, payload.get("timeout", 30)))
        elif case.get("plain"):
            out.append(run_plain(payload["impl"], case))
        else:
            out.append(run_case(payload["impl"], prog, case["n"], case, payload.get("timeout", 30)))
        if out[-1]["status"] == "timeout":
            timeouts += 1
    return dict(results=out)


if __name__ == "__main__":
    from lib.vlib import worker_main
    worker_main(main)
