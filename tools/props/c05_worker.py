"""C05 worker: runs inside the scratch build of cffi.  Stores Python values into float / double /
complex / long double C objects through every store path and reports the raw bytes written and the
value read back (as bit patterns).  No judgement here: the check (c05.py) compares with the Coq model
and the gcc oracle."""
import importlib
import os
import struct
import sys

import cffi
from lib.vlib import worker_main

TNAME = {"f": "float", "d": "double", "fc": "float _Complex", "dc": "double _Complex", "ld": "long double"}
CSIZE = {"f": 4, "d": 8, "fc": 4, "dc": 8}       # component size
NCOMP = {"f": 1, "d": 1, "fc": 2, "dc": 2}

CDEF_TYPES = """
struct s_f  { char pad; float f; float g; };
struct s_d  { char pad; double f; double g; };
struct s_fc { char pad; float _Complex f; float _Complex g; };
struct s_dc { char pad; double _Complex f; double _Complex g; };
struct s_ld { char pad; long double f; long double g; };
"""
CDEF_FUNCS_REAL = """
float id_f(float); double id_d(double); long double id_ld(long double);
void st_f(float, char *); void st_d(double, char *); void st_ld(long double, char *);
void call_f(float (*)(void), char *); void call_d(double (*)(void), char *);
void call_ld(long double (*)(void), char *);
"""
CDEF_FUNCS_COMPLEX = """
float _Complex id_fc(float _Complex); double _Complex id_dc(double _Complex);
void st_fc(float _Complex, char *); void st_dc(double _Complex, char *);
void call_fc(float _Complex (*)(void), char *); void call_dc(double _Complex (*)(void), char *);
"""


def d2bits(x):
    return struct.unpack("<Q", struct.pack("<d", x))[0]


def bits2d(b):
    return struct.unpack("<d", struct.pack("<Q", b))[0]


class HasFloat(object):
    def __init__(self, x):
        self.x = x

    def __float__(self):
        return self.x


class HasComplex(object):
    def __init__(self, c):
        self.c = c

    def __complex__(self):
        return self.c


class Other(object):
    pass


def make_value(spec):
    """-> (python value, effective description: what the value really is, bit for bit)"""
    k = spec["k"]
    if k == "float":
        x = bits2d(spec["bits"])
        return x, dict(k=k, bits=d2bits(x))
    if k == "hasfloat":
        x = bits2d(spec["bits"])
        return HasFloat(x), dict(k=k, bits=d2bits(x))
    if k == "int":
        return int(spec["n"]), dict(k=k, n=str(int(spec["n"])))
    if k == "complex":
        c = complex(bits2d(spec["re"]), bits2d(spec["im"]))
        return c, dict(k=k, re=d2bits(c.real), im=d2bits(c.imag))
    if k == "hascomplex":
        c = complex(bits2d(spec["re"]), bits2d(spec["im"]))
        return HasComplex(c), dict(k=k, re=d2bits(c.real), im=d2bits(c.imag))
    if k == "bytes":
        return bytes(spec["b"]), dict(k=k, b=list(spec["b"]))
    if k == "str":
        return "".join(chr(c) for c in spec["cps"]), dict(k=k, cps=list(spec["cps"]))
    if k == "other":
        return Other(), dict(k=k)
    raise ValueError(k)


XT = {"f": "float", "d": "double", "ld": "long double", "fc": "float _Complex", "dc": "double _Complex"}


def f32_to_py(bits):
    return struct.unpack("<f", struct.pack("<I", bits))[0]


def make_cdata(ffi, spec):
    """a primitive cdata source -> (cdata, effective description as the Coq model sees it)"""
    k = spec["k"]
    if k == "cd_float":
        cd = ffi.cast("float", f32_to_py(spec["bits"]))
        return cd, dict(k=k, bits=spec["bits"])
    if k == "cd_double":
        cd = ffi.cast("double", bits2d(spec["bits"]))
        return cd, dict(k=k, bits=d2bits(float(cd)))
    if k == "cd_int":
        cd = ffi.cast(spec["ctype"], int(spec["n"]))
        return cd, dict(k=k, ctype=spec["ctype"], n=str(int(cd)))
    if k == "cd_char":
        cd = ffi.cast("char", spec["b"])
        return cd, dict(k=k, b=ord(bytes(ffi.buffer(ffi.new("char *", cd)))))
    if k == "cd_wchar":
        cd = ffi.cast(spec["ctype"], spec["c"])
        return cd, dict(k=k, ctype=spec["ctype"], c=int(cd))
    if k == "cd_ld":
        src = ffi.new("long double *")
        ffi.buffer(src)[0:10] = bytes.fromhex(spec["raw"])
        cd = src[0]
        return cd, dict(k=k, raw=spec["raw"])
    if k == "cd_complex":
        if spec["ck"] == "fc":
            c = complex(f32_to_py(spec["re"]), f32_to_py(spec["im"]))
        else:
            c = complex(bits2d(spec["re"]), bits2d(spec["im"]))
        cd = ffi.cast(XT[spec["ck"]], c)
        return cd, dict(k=k, ck=spec["ck"], re=spec["re"], im=spec["im"])
    if k == "cd_other":
        return ffi.cast("void *", 0), dict(k=k)
    raise ValueError(k)


def run_x(env, t, path, v):
    """cdata sources / long double target: -> dict(stored=[component patterns (10 value bytes for long double)])"""
    ffi = env.ffi
    T = XT[t]
    size = {"f": 4, "d": 8, "ld": 16, "fc": 8, "dc": 16}[t]
    if path == "cast":
        c = ffi.cast(T, v)
        raw = bytes(ffi.buffer(ffi.new(T + " *", c)))
    elif path == "new":
        raw = bytes(ffi.buffer(ffi.new(T + " *", v)))
    elif path == "item":
        a = ffi.new(T + "[3]")
        a[1] = v
        buf = bytes(ffi.buffer(a))
        raw = buf[size:2 * size]
        if any(buf[:size]) or any(buf[2 * size:]):
            return dict(stored=[], clobber=True)
    else:
        raise ValueError(path)
    if t == "ld":
        return dict(stored=[int.from_bytes(raw[:10], "little")])
    return dict(stored=comps(t, raw))


def comps(t, raw):
    n, sz = NCOMP[t], CSIZE[t]
    assert len(raw) == n * sz, (t, len(raw))
    return [int.from_bytes(raw[i * sz:(i + 1) * sz], "little") for i in range(n)]


def readbits(t, v):
    if NCOMP[t] == 1:
        return [d2bits(float(v))]
    c = complex(v)
    return [d2bits(c.real), d2bits(c.imag)]


class Env(object):
    def __init__(self, payload):
        self.ffi = cffi.FFI()
        self.ffi.cdef(CDEF_TYPES + CDEF_FUNCS_REAL)
        self.lib = self.ffi.dlopen(payload["helper"])
        self.api = None
        if payload.get("api"):
            self.api = build_api(payload)

    def total(self, t):
        return NCOMP[t] * CSIZE[t]


def build_api(payload):
    """API-mode module (compiled): the generated wrappers convert arguments with _cffi_to_c_float /
    _cffi_to_c_double / _cffi_to_c for complex, results with _cffi_from_c_*."""
    work = os.environ["VERIF_WORK"]
    ffi = cffi.FFI()
    ffi.cdef(CDEF_FUNCS_REAL + CDEF_FUNCS_COMPLEX)
    src = open(payload["helper_src"]).read()
    ffi.set_source("_c05_api", src)
    ffi.compile(tmpdir=work)
    sys.path.insert(0, work)
    mod = importlib.import_module("_c05_api")
    if not payload.get("cold"):
        # realize every function type first.  (Without this, a call that passes a complex argument can
        # find its _cffi_type(n) slot not yet realized — finding api-complex-arg-cold-slot; the cold
        # probes exercise exactly that.)
        for name in dir(mod.lib):
            getattr(mod.lib, name)
    return mod


def run_store(env, t, path, v):
    """-> dict(stored=[component patterns], read=[binary64 patterns], clobber=bool)"""
    ffi, lib = env.ffi, env.lib
    T, size = TNAME[t], env.total(t)
    clobber = False
    if path == "new":
        p = ffi.new(T + " *", v)
        raw, back = bytes(ffi.buffer(p)), p[0]
    elif path == "item":
        a = ffi.new(T + "[3]")
        a[1] = v
        buf = bytes(ffi.buffer(a))
        raw, back = buf[size:2 * size], a[1]
        clobber = any(buf[:size]) or any(buf[2 * size:])
    elif path == "list":
        a = ffi.new(T + "[]", [v])
        raw, back = bytes(ffi.buffer(a)), a[0]
    elif path == "field":
        s = ffi.new("struct s_%s *" % t)
        s.f = v
        off = ffi.offsetof("struct s_%s" % t, "f")
        buf = bytes(ffi.buffer(s))
        raw, back = buf[off:off + size], s.f
        clobber = any(buf[:off]) or any(buf[off + size:])
    elif path == "structinit":
        s = ffi.new("struct s_%s *" % t, {"f": v})
        off = ffi.offsetof("struct s_%s" % t, "f")
        buf = bytes(ffi.buffer(s))
        raw, back = buf[off:off + size], s.f
        clobber = any(buf[:off]) or any(buf[off + size:])
    elif path in ("callarg", "api_callarg"):
        L = lib if path == "callarg" else env.api.lib
        F = ffi if path == "callarg" else env.api.ffi
        out = F.new("char[16]")
        getattr(L, "st_" + t)(v, out)
        raw = bytes(F.buffer(out))[:size]
        back = getattr(L, "id_" + t)(v)
    elif path == "callback":
        L, F = lib, ffi
        errs = []

        def onerror(exc, val, tb):
            errs.append(exc)

        cb = F.callback(T + "(void)", lambda: v, onerror=onerror)
        out = F.new("char[16]")
        getattr(L, "call_" + t)(cb, out)
        if errs:
            raise errs[0]("callback")
        raw = bytes(F.buffer(out))[:size]
        back = cb()
    elif path == "cast":
        c = ffi.cast(T, v)
        back = float(c) if NCOMP[t] == 1 else complex(c)
        raw = bytes(ffi.buffer(ffi.new(T + " *", c)))
    else:
        raise ValueError(path)
    return dict(stored=comps(t, raw), read=readbits(t, back), clobber=bool(clobber))


def run_ld(env, path, raw10):
    """long double: put the 10 value bytes in memory, read the value (p[0]), send it through a path,
    return the 16 bytes found at the destination"""
    ffi, lib = env.ffi, env.lib
    src = ffi.new("long double *")
    ffi.buffer(src)[0:10] = raw10
    x = src[0]                                  # convert_to_object: read + write into a new cdata
    if path == "new":
        dst = bytes(ffi.buffer(ffi.new("long double *", x)))
    elif path == "item":
        a = ffi.new("long double[3]")
        a[1] = x
        dst = bytes(ffi.buffer(a))[16:32]
    elif path == "list":
        dst = bytes(ffi.buffer(ffi.new("long double[]", [x])))
    elif path == "field":
        s = ffi.new("struct s_ld *")
        s.f = x
        off = ffi.offsetof("struct s_ld", "f")
        dst = bytes(ffi.buffer(s))[off:off + 16]
    elif path == "cast":
        c = ffi.cast("long double", x)
        dst = bytes(ffi.buffer(ffi.new("long double *", c)))
    elif path == "reread":
        p = ffi.new("long double *", x)
        y = p[0]
        z = ffi.new("long double[1]", [y])
        dst = bytes(ffi.buffer(z))
    elif path in ("callarg", "api_callarg"):
        L = lib if path == "callarg" else env.api.lib
        F = ffi if path == "callarg" else env.api.ffi
        out = F.new("char[16]")
        L.st_ld(x, out)
        dst = bytes(F.buffer(out))
    elif path == "callret":
        y = lib.id_ld(x)
        dst = bytes(ffi.buffer(ffi.new("long double *", y)))
    elif path == "callback":
        cb = ffi.callback("long double(void)", lambda: x)
        out = ffi.new("char[16]")
        lib.call_ld(cb, out)
        dst = bytes(ffi.buffer(out))
    else:
        raise ValueError(path)
    return dst


def one(env, case):
    try:
        if case["kind"] == "fp":
            v, eff = make_value(case["v"])
            r = run_store(env, case["t"], case["path"], v)
            r["eff"] = eff
            return r
        if case["kind"] == "xfp":
            if case["v"]["k"].startswith("cd_"):
                v, eff = make_cdata(env.ffi, case["v"])
            else:
                v, eff = make_value(case["v"])
            r = run_x(env, case["t"], case["path"], v)
            r["eff"] = eff
            return r
        if case["kind"] == "api_cold":
            # first use of the module: call one function taking a complex by value, nothing else before
            F, L = env.api.ffi, env.api.lib
            out = F.new("char[16]")
            v = complex(bits2d(case["re"]), bits2d(case["im"]))
            getattr(L, "st_" + case["t"])(v, out)
            raw = bytes(F.buffer(out))[:2 * CSIZE[case["t"]]]
            return dict(stored=comps(case["t"], raw), eff=dict(k="complex", re=d2bits(v.real), im=d2bits(v.imag)))
        if case["kind"] == "ld":
            dst = run_ld(env, case["path"], bytes.fromhex(case["raw"]))
            return dict(dst=dst.hex())
        if case["kind"] == "ld_from_double":
            x = bits2d(case["bits"])
            how = case["path"]
            if how == "cast":
                c = env.ffi.cast("long double", x)
                dst = bytes(env.ffi.buffer(env.ffi.new("long double *", c)))
            elif how == "new":
                dst = bytes(env.ffi.buffer(env.ffi.new("long double *", x)))
            else:
                a = env.ffi.new("long double[2]")
                a[1] = x
                dst = bytes(env.ffi.buffer(a))[16:32]
            return dict(dst=dst.hex(), eff=d2bits(x))
        if case["kind"] == "ld_to_double":
            src = env.ffi.new("long double *")
            env.ffi.buffer(src)[0:10] = bytes.fromhex(case["raw"])
            return dict(read=d2bits(float(src[0])))
        raise ValueError(case["kind"])
    except (TypeError, OverflowError) as e:
        return dict(err=type(e).__name__)
    except Exception as e:
        return dict(err="other:" + type(e).__name__ + ":" + str(e)[:200])


def main(payload):
    env = Env(payload)
    return dict(results=[one(env, c) for c in payload["cases"]])


worker_main(main)
