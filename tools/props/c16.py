"""C16 — array and pointer indexing, slicing and arithmetic follow the C model.

Tie: correspondence. Random operation sequences (index read/write, slice, slice assignment from
lists/tuples/generators/bytes/other views, p+i, i+p, p-i, p-q, addressof) over owned arrays of every
element kind and length are run on the real cdata objects; after every operation the bytes of the base
allocation are compared with (a) a byte-level reference written from the property text (class Sim: decides
"violation") and (b) the Coq model C16/Model.v (decides "model mismatch").  ffi.offsetof / addressof with
integer arguments are checked separately in forked children (a crash is an outcome).
"""
import os
import struct

from lib import vlib
from props import c16_regen

ID = "C16"


def regen(ctx):
    path = os.path.join(vlib.COQ, "C16", "Gen.v")
    try:
        src = open(os.path.join(vlib.REPO, "src", "c", "_cffi_backend.c")).read()
        text = c16_regen.render(c16_regen.extract(src))
    except (c16_regen.RegenError, OSError) as e:
        ctx.translator("C16/Gen.v", "fallback: %s" % e)
        text = None
    old = open(path).read() if os.path.exists(path) else None
    if text is not None:
        if old == text:
            ctx.translator("C16/Gen.v", "unchanged")
        else:
            with vlib.CoqLock():
                with open(path, "w") as f:
                    f.write(text)
            ctx.translator("C16/Gen.v", "regenerated")
    # the model is evaluated through the .vo files (also by --replay, which skips the proof re-check)
    vo = os.path.join(vlib.COQ, "C16", "Model.vo")
    if not os.path.exists(vo) or os.path.getmtime(vo) < os.path.getmtime(path):
        vlib.coq_make(["C16/Model.vo"])

# (ctype, size, category)
ITEMS = [("int8_t", 1, "s"), ("uint8_t", 1, "u"), ("int16_t", 2, "s"), ("uint16_t", 2, "u"), ("int32_t", 4, "s"),
         ("uint32_t", 4, "u"), ("int64_t", 8, "s"), ("uint64_t", 8, "u"), ("char", 1, "char"), ("double", 8, "double"),
         ("struct s3", 3, "struct")]
ITEM = {t[0]: t for t in ITEMS}
STATIC_ITEMS = [("int", 4), ("char", 1), ("double", 8), ("struct s3", 3), ("int[3]", 12), ("int[0]", 0),
                ("struct s0", 0), ("char[0]", 0), ("short[5]", 10)]
M63 = 1 << 63
M64 = 1 << 64


def ssize_ok(z):
    return -M63 <= z < M63


def to_ssize(z):
    z %= M64
    return z if z < M63 else z - M64


def conv(item, v):
    """bytes stored by convert_from_object for value spec v, or the exception class it raises"""
    _, size, cat = ITEM[item]
    tag = v[0]
    if cat in ("s", "u"):
        if tag != "int":
            return "TypeError"
        lo, hi = (-(1 << (8 * size - 1)), (1 << (8 * size - 1)) - 1) if cat == "s" else (0, (1 << (8 * size)) - 1)
        if not lo <= v[1] <= hi:
            return "OverflowError"
        return (v[1] % (1 << (8 * size))).to_bytes(size, "little")
    if cat == "char":
        if tag == "bytes" and len(v[1]) == 2:
            return bytes.fromhex(v[1])
        return "TypeError"
    if cat == "double":
        if tag == "float":
            return struct.pack("<Q", v[1])
        if tag == "int":
            return struct.pack("<d", float(v[1]))
        return "TypeError"
    return "TypeError"


class Sim:
    """Reference semantics written from the property text (the C model): views are (kind, byte offset
    relative to the base array, length); memory is the byte string of the base array."""

    def __init__(self, case, base):
        self.item = case["item"]
        self.size = ITEM[self.item][1]
        self.base = base
        self.mem = bytearray.fromhex(case["init"])
        self.views = [dict(kind="owned" if case.get("owned") else "arr", off=0, len=case["n"])]

    def absaddr(self, off):
        return (self.base + off) % M64

    def inside(self, off, nbytes):
        return 0 <= off and off + nbytes <= len(self.mem)

    def index_off(self, v, i):
        """byte offset of v[i] or an exception class"""
        if v["kind"] == "arr":
            return v["off"] + i * self.size if 0 <= i < v["len"] else "IndexError"
        if v["kind"] == "owned":
            return v["off"] if i == 0 else "IndexError"
        if not ssize_ok(i):
            return "IndexError"
        if self.absaddr(v["off"]) == 0:
            return "RuntimeError"
        return v["off"] + i * self.size

    def slice_bounds(self, v, a, b, step):
        if a is None or (ssize_ok(a) and b is None):
            return "IndexError"
        if not ssize_ok(a) or not ssize_ok(b):
            return "IndexError!"          # the property says IndexError; the code raises OverflowError
        if step is not None or a > b:
            return "IndexError"
        if v["kind"] == "arr" and (a < 0 or b > v["len"]):
            return "IndexError"
        return (a, b - a)

    def step(self, op):
        """returns (expected outcome, memory expectation) where the memory expectation is
        ('exact', bytes) or ('outside', lo, hi): bytes outside [lo, hi) unchanged"""
        s, kind = self.size, op[0]
        same = ("exact", bytes(self.mem))
        if kind == "ir":
            o = self.index_off(self.views[op[1]], op[2])
            if isinstance(o, str):
                return ["err", o], same
            if not self.inside(o, s):
                return ["escape"], same
            if ITEM[self.item][2] == "struct":
                return ["view", self.absaddr(o)], same
            return ["bytes", bytes(self.mem[o:o + s]).hex(), self.absaddr(o)], same
        if kind == "iw":
            o = self.index_off(self.views[op[1]], op[2])
            if isinstance(o, str):
                return ["err", o], same
            c = conv(self.item, op[3])
            if isinstance(c, str):
                return ["err", c], same
            if not self.inside(o, s):
                return ["escape"], same
            self.mem[o:o + s] = c
            return ["done"], ("exact", bytes(self.mem))
        if kind == "sl":
            v = self.views[op[1]]
            r = self.slice_bounds(v, op[2], op[3], op[4])
            if isinstance(r, str):
                return ["err", r], same
            nv = dict(kind="arr", off=v["off"] + r[0] * s, len=r[1])
            self.views.append(nv)
            return ["cd", "arr", nv["len"], self.absaddr(nv["off"])], same
        if kind == "as":
            v = self.views[op[1]]
            r = self.slice_bounds(v, op[2], op[3], op[4])
            if isinstance(r, str):
                return ["err", r], same
            lo, n = v["off"] + r[0] * s, r[1]
            region = ("outside", lo, lo + n * s)
            src = op[5]
            if src[0] == "del":
                return ["err", "TypeError"], same
            if not self.inside(lo, n * s):
                return ["escape"], same
            if src[0] == "view":
                w = self.views[src[1]]
                if w["kind"] != "arr":
                    return ["err", "TypeError"], same
                if w["len"] != n:
                    return ["err", "ValueError"], region
                if not self.inside(w["off"], n * s):
                    return ["escape"], same
                tmp = bytes(self.mem[w["off"]:w["off"] + n * s])
                self.mem[lo:lo + n * s] = tmp
                return ["done"], ("exact", bytes(self.mem))
            if src[0] == "bytes" and ITEM[self.item][2] == "char":
                b = bytes.fromhex(src[1])
                if len(b) != n:
                    return ["err", "ValueError"], region
                self.mem[lo:lo + n] = b
                return ["done"], ("exact", bytes(self.mem))
            vals = src[1] if src[0] == "list" else [["int", x] for x in bytes.fromhex(src[1])]
            cs = [conv(self.item, x) for x in vals]
            for k in range(n):
                if k >= len(cs):
                    return ["err", "ValueError"], region
                if isinstance(cs[k], str):
                    return ["err", cs[k]], region
            if len(cs) > n:
                return ["err", "ValueError"], region
            for k in range(n):
                self.mem[lo + k * s:lo + (k + 1) * s] = cs[k]
            return ["done"], ("exact", bytes(self.mem))
        if kind in ("add", "subi"):
            v, w = self.views[op[1]], op[2]
            if not ssize_ok(w):
                return ["err", "OverflowError"], same
            i = to_ssize(w if kind == "add" else -w)
            nv = dict(kind="ptr", off=v["off"] + i * s, len=None)
            self.views.append(nv)
            return ["cd", "ptr", None, self.absaddr(nv["off"])], same
        if kind == "psub":
            v, w = self.views[op[1]], self.views[op[2]]
            if v["kind"] == "arr" or s <= 0:
                return ["err", "TypeError"], same
            diff = to_ssize(self.absaddr(v["off"]) - self.absaddr(w["off"]))
            if s > 1:
                if abs(diff) % s:
                    return ["err", "ValueError"], same
                q = abs(diff) // s
                diff = q if diff >= 0 else -q
            return ["int", diff], same
        if kind == "addr":
            v, i = self.views[op[1]], op[2]
            if not ssize_ok(i):
                return ["err", "TypeError"], same
            if not ssize_ok(i * s):
                return ["err", "OverflowError"], same
            nv = dict(kind="ptr", off=v["off"] + i * s, len=None)
            self.views.append(nv)
            return ["cd", "ptr", None, self.absaddr(nv["off"])], same
        raise ValueError(kind)


# ------------------------------------------------------------------------------------------ generator
def rand_val(rng, item):
    _, size, cat = ITEM[item]
    r = rng.random()
    if cat in ("s", "u"):
        if r < 0.08:
            return rng.choice([["float", 0x3ff0000000000000], ["bytes", "61"], ["str", "a"]])
        b = 8 * size
        return ["int", rng.choice([0, 1, -1, (1 << (b - 1)) - 1, 1 << (b - 1), -(1 << (b - 1)), -(1 << (b - 1)) - 1,
                                   (1 << b) - 1, 1 << b, rng.getrandbits(b), -rng.getrandbits(b - 1),
                                   rng.randrange(256)])]
    if cat == "char":
        if r < 0.15:
            return rng.choice([["int", 65], ["bytes", "6162"], ["bytes", ""], ["str", "a"]])
        return ["bytes", "%02x" % rng.getrandbits(8)]
    if cat == "double":
        if r < 0.1:
            return rng.choice([["bytes", "61"], ["str", "a"]])
        if r < 0.3:
            return ["int", rng.randrange(-1000, 1000)]
        return ["float", rng.choice([0, 1 << 63, 0x3ff0000000000000, 0x7ff0000000000000, 0x7ff8000000000000,
                                     rng.getrandbits(64)])]
    return ["int", 0]


def rand_index(rng, L):
    r = rng.random()
    if r < 0.45 and L > 0:
        return rng.randrange(L)
    return rng.choice([-1, 0, L - 1, L, L + 1, -L, 2 * L, M63 - 1, M63, -M63, -M63 - 1, 1 << 70, -(1 << 64), L // 2])


def gen_case(rng, owned=False):
    item, size, cat = rng.choice(ITEMS)
    n = 1 if owned else rng.choice([0, 1, 2, 3, 4, 5, 8])
    init = bytes(rng.getrandbits(8) for _ in range(n * size))
    case = dict(kind="seq", item=item, n=n, init=init.hex(), ops=[])
    if owned:
        case["owned"] = True
    sim = Sim(case, 1 << 40)
    nbytes = n * size
    for _ in range(rng.choice([3, 5, 8, 12])):
        vi = rng.randrange(len(sim.views)) if rng.random() < 0.6 else len(sim.views) - 1
        v = sim.views[vi]
        r = rng.random()
        op = None
        if v["kind"] in ("arr", "owned"):
            L = v["len"] if v["kind"] == "arr" else 1
            inb = v["kind"] == "owned" or sim.inside(v["off"], L * size)
            if r < 0.2 and inb:
                op = ["ir", vi, rand_index(rng, L)]
            elif r < 0.38 and inb and cat != "struct":
                op = ["iw", vi, rand_index(rng, L), rand_val(rng, item)]
            elif r < 0.6 and v["kind"] == "arr":
                a, b = sorted([rand_index(rng, L) if rng.random() < 0.3 else rng.randrange(L + 1),
                               rng.randrange(L + 1)]) if rng.random() < 0.8 else \
                    (rand_index(rng, L), rand_index(rng, L))
                if rng.random() < 0.06:
                    a = None
                if rng.random() < 0.06:
                    b = None
                step = None if rng.random() < 0.9 else rng.choice([1, 2, -1])
                op = ["sl", vi, a, b, step]
            elif r < 0.82 and v["kind"] == "arr" and inb and cat != "struct":
                a, b = sorted([rng.randrange(L + 1), rng.randrange(L + 1)])
                if rng.random() < 0.12:
                    a, b = rand_index(rng, L), rand_index(rng, L)
                step = None if rng.random() < 0.93 else 1
                want = b - a if (a is not None and b is not None) else 1
                want = max(0, min(want, 10))
                k = rng.random()
                cnt = want if k < 0.7 else max(0, want + rng.choice([-1, 1, 2]))
                q = rng.random()
                if q < 0.45:
                    src = ["list", [rand_val(rng, item) for _ in range(cnt)], rng.choice(["list", "tuple", "gen"])]
                elif q < 0.65 and cat in ("char", "s", "u"):
                    src = ["bytes", bytes(rng.getrandbits(8) if cat != "s" or size > 1 else rng.getrandbits(7)
                                          for _ in range(cnt)).hex(), rng.choice(["bytes", "bytearray"])]
                elif q < 0.97:
                    cands = [j for j, w in enumerate(sim.views)
                             if w["kind"] == "arr" and sim.inside(w["off"], w["len"] * size)]
                    exact = [j for j in cands if sim.views[j]["len"] == want]
                    j = rng.choice(exact if exact and rng.random() < 0.7 else cands) if cands else None
                    src = ["view", j] if j is not None else ["del"]
                else:
                    src = ["del"]
                op = ["as", vi, a, b, step, src]
            elif r < 0.9:
                op = ["add", vi, rng.choice([0, 1, -1, L, rng.randrange(L + 1), M63 - 1, M63, -M63, 1 << 62,
                                             -(1 << 61), 1 << 65]), rng.random() < 0.3]
            elif r < 0.95:
                op = ["addr", vi, rng.choice([0, 1, L, rng.randrange(L + 1), -1, M63 - 1, 1 << 62, M63, -M63])]
            else:
                op = ["subi", vi, rng.choice([0, 1, -1, L, -M63, M63 - 1, 1 << 64])]
        else:   # raw pointer: dereference only inside the base array
            lo_items = -(v["off"] // size) if size and v["off"] % size == 0 else None
            safe = []
            if lo_items is not None:
                safe = [j for j in range(lo_items, lo_items + n) if sim.inside(v["off"] + j * size, size)]
            if r < 0.25 and safe and sim.absaddr(v["off"]) != 0:
                op = ["ir", vi, rng.choice(safe)]
            elif r < 0.4 and safe and cat != "struct":
                op = ["iw", vi, rng.choice(safe), rand_val(rng, item)]
            elif r < 0.5 and safe:
                a = rng.choice(safe)
                b = rng.choice([x + 1 for x in safe if x + 1 >= a] or [a])
                op = ["sl", vi, a, b, None]
            elif r < 0.75:
                others = list(range(len(sim.views)))
                op = ["psub", vi, rng.choice(others)]
            elif r < 0.9:
                op = ["add", vi, rng.choice([0, 1, -1, n, -n, M63 - 1, -M63, 1 << 62, M63]), rng.random() < 0.3]
            else:
                op = ["subi", vi, rng.choice([0, 1, n, -1, 1 << 62, -M63])]
        if op is None:
            continue
        if op[0] == "psub" and rng.random() < 0.3:
            op = ["psub", rng.randrange(len(sim.views)), rng.randrange(len(sim.views))]
        exp, _ = sim.step(list(op))
        if exp == ["escape"]:
            # never run an access outside the base allocation on the real code
            sim = Sim(dict(case, ops=[]), 1 << 40)
            for o in case["ops"]:
                sim.step(list(o))
            continue
        case["ops"].append(op)
    return case


def generate(ctx):
    rng = ctx.rng
    big = ctx.tier_search == "thorough"
    cases = []
    for _ in range(700 if not big else 2000):
        cases.append(gen_case(rng))
    for _ in range(40 if not big else 150):
        cases.append(gen_case(rng, owned=True))
    # offsetof / addressof with integer arguments
    for item, size in STATIC_ITEMS:
        for i in [0, 1, -1, 3, 1 << 31, (M63 - 1) // max(size, 1), (M63 - 1) // max(size, 1) + 1, -M63, M63 - 1, M63]:
            cases.append(dict(kind="static", what="offsetof", item=item, i=i))
        cases.append(dict(kind="static", what="offsetof_fixed", item=item, i=rng.randrange(-3, 9), len=4))
        for i in [0, 1, 2, -1, 1 << 40]:
            cases.append(dict(kind="static", what="addressof", item=item, i=i, len=3))
    # design witnesses
    cases.append(dict(kind="seq", item="int32_t", n=4, init="01000000020000000300000004000000",
                      ops=[["sl", 0, 1, 3, None], ["iw", 1, 1, ["int", 9]], ["ir", 0, 2], ["ir", 0, 4],
                           ["sl", 0, 3, 2, None], ["as", 0, 0, 2, None, ["view", 1]], ["ir", 1, 2]]))
    return cases


# ------------------------------------------------------------------------------------------ evaluation
def zl(xs):
    return "[" + ";".join("%d" % x for x in xs) + "]"


EXN = {"IndexError", "OverflowError", "TypeError", "ValueError", "RuntimeError"}


def conv_lit(item, v):
    c = conv(item, v)
    return ("Err %s" % c) if isinstance(c, str) else "Ok " + zl(c)


def bound_lit(b):
    return "BNone" if b is None else "BInt (%d)" % b


def op_lit(item, op):
    k = op[0]
    cat = ITEM[item][2]
    if k == "ir":
        return "OIndexRead %d (%d)" % (op[1], op[2])
    if k == "iw":
        return "OIndexWrite %d (%d) (%s)" % (op[1], op[2], conv_lit(item, op[3]))
    if k == "sl":
        return "OSlice %d (%s) (%s) %s" % (op[1], bound_lit(op[2]), bound_lit(op[3]),
                                          "false" if op[4] is None else "true")
    if k == "as":
        src = op[5]
        if src[0] == "del":
            s = "SDel"
        elif src[0] == "view":
            s = "(SArray %d)" % src[1]
        elif src[0] == "bytes" and cat == "char":
            s = "(SBytes %s)" % zl(bytes.fromhex(src[1]))
        else:
            vals = src[1] if src[0] == "list" else [["int", x] for x in bytes.fromhex(src[1])]
            s = "(SList [" + "; ".join(conv_lit(item, v) for v in vals) + "])"
        return "OAssSlice %d (%s) (%s) %s %s %s" % (op[1], bound_lit(op[2]), bound_lit(op[3]),
                                                    "false" if op[4] is None else "true",
                                                    "true" if cat == "char" else "false", s)
    if k == "add":
        return "OAdd %d (%d)" % (op[1], op[2])
    if k == "subi":
        return "OSubInt %d (%d)" % (op[1], op[2])
    if k == "psub":
        return "OPtrSub %d %d" % (op[1], op[2])
    if k == "addr":
        return "OAddressof %d (%d)" % (op[1], op[2])
    raise ValueError(k)


def finding_key_seq(op, got, exp):
    """slice_bound_not_ssize: a slice (or slice assignment) with an integer bound outside Py_ssize_t raised
    OverflowError instead of IndexError (memory untouched)"""
    if op[0] in ("sl", "as") and exp == ["err", "IndexError!"] and got == ["err", "OverflowError"]:
        if any(isinstance(b, int) and not ssize_ok(b) for b in (op[2], op[3])):
            return "slice_bound_not_ssize"
    return None


def eval_seq(ctx, c, r, coqcases, owner):
    item, size, cat = ITEM[c["item"]]
    base = r["base"]
    sim = Sim(c, base)
    nviews, outs_lit, ok_for_coq = 1, [], True
    prev = bytes.fromhex(c["init"])
    for op, got, memhex in zip(c["ops"], r["outs"], r["mems"]):
        mem = bytes.fromhex(memhex)
        exp, memexp = sim.step(list(op))
        ctx.hist("op", op[0])
        ctx.hist("outcome", got[0] if got[0] != "err" else got[1])
        what = None
        # ---- the property predicate on the implementation
        g = got[:4] if got[0] == "cd" else got
        e = exp[:2] if exp[0] == "bytes" else exp
        if e == ["err", "IndexError!"]:
            e = ["err", "IndexError"]
        if g != e:
            what = "%r on view %d: implementation gives %r, the C model requires %r" % (op, op[1], got, exp)
        if memexp[0] == "exact":
            if mem != memexp[1]:
                what = "%r: memory is %s, must be %s" % (op, mem.hex(), memexp[1].hex())
        else:
            lo, hi = memexp[1], memexp[2]
            if mem[:lo] != prev[:lo] or mem[hi:] != prev[hi:]:
                what = "%r: bytes outside the assigned slice [%d,%d) changed: %s -> %s" % (
                    op, lo, hi, prev.hex(), mem.hex())
            sim.mem = bytearray(mem)
        if what:
            key = finding_key_seq(op, got, exp)
            if key and mem == prev:
                ctx.violation(dict(c, ops=c["ops"][:c["ops"].index(op) + 1]), what, key)
                # keep going with the implementation's answer
            else:
                ctx.violation(dict(c, ops=c["ops"][:c["ops"].index(op) + 1]), what)
                return
        prev = mem
        # ---- outcome literal for the model
        if got[0] == "bytes":
            outs_lit.append("RBytes %d (Some %s)" % (exp[2] if exp[0] == "bytes" else 0, zl(bytes.fromhex(got[1]))))
        elif got[0] == "view":
            o = got[1] - base
            outs_lit.append("RBytes %d (Some %s)" % (got[1], zl(mem[o:o + size]) if 0 <= o <= len(mem) - size else "[]"))
        elif got[0] == "done":
            outs_lit.append("RDone")
        elif got[0] == "cd" and got[1] in ("arr", "ptr"):
            kind = "KArr (%d)" % got[2] if got[1] == "arr" else "KPtr false"
            outs_lit.append("RView %d (mkcd (%s) %d %d false)" % (nviews, kind, got[3], size))
            nviews += 1
        elif got[0] == "int":
            outs_lit.append("RInt (%d)" % got[1])
        elif got[0] == "err" and got[1] in EXN:
            outs_lit.append("RErr " + got[1])
        else:
            ok_for_coq = False
    if c["ops"]:
        ctx.nontrivial((c["item"], c["n"], c["init"], c["ops"]))
    if ok_for_coq:
        v0 = "mkcd (KPtr true) %d %d false" % (base, size) if c.get("owned") else \
             "mkcd (KArr %d) %d %d false" % (c["n"], base, size)
        inp = "(%d, mkst %s [%s] false, [%s])" % (base, zl(bytes.fromhex(c["init"])), v0,
                                                 "; ".join(op_lit(c["item"], op) for op in c["ops"]))
        coqcases.append((inp, "(%s, false, [%s])" % (zl(prev), "; ".join(outs_lit))))
        owner.append(c)
    else:
        ctx.mismatch(c, "outcome outside the model's vocabulary: %r" % r["outs"], "C16.Model.run vs cdata operations")


def eval_static(ctx, c, r, coqcases, owner):
    size, out, i = r["size"], r["out"], c["i"]
    ctx.hist("static", c["what"])
    zero = size == 0
    key = "offsetof_zero_size_item" if zero and out[0] == "crash" else None
    if c["what"] in ("offsetof", "offsetof_fixed"):
        if not ssize_ok(i):
            want = None                      # not an index the property speaks about
        elif ssize_ok(i * size):
            want = ["int", i * size]
        else:
            want = ["err", "OverflowError"]
        if want is not None and out != want:
            ctx.violation(c, "ffi.offsetof('%s[]', %d) gives %r, i*sizeof(T) = %r" % (c["item"], i, out, want), key)
        if c["what"] == "offsetof":
            lit = {"int": lambda: "Ok (%d)" % out[1], "err": lambda: "Err " + out[1],
                   "crash": lambda: "Err Crash"}.get(out[0])
            if lit and (out[0] != "err" or out[1] in EXN):
                coqcases.append(("(%d, mkst [] [] false, [])" % 0, None, "offsetof_index (%d) (%d)" % (size, i), lit()))
        ctx.nontrivial(("static", c["what"], c["item"], i))
    else:
        if out[0] == "pair":
            a, b = out[1], out[2]
            if a != b and not (a[0] == "err" and not ssize_ok(i * size)):
                ctx.violation(c, "ffi.addressof(x, %d) is %r but x + %d is %r (T = %s)" % (i, a, i, b, c["item"]))
        else:
            ctx.violation(c, "ffi.addressof(x, %d) on %s[3]: %r" % (i, c["item"], out), key)
        ctx.nontrivial(("static", c["what"], c["item"], i))


def classify(ctx, cases, results, sink):
    """evaluate worker results; violations go to sink (list of (case, what, key)) instead of ctx"""
    class Tmp:
        pass
    seqcases, owner, statics = [], [], []
    real_violation = ctx.violation
    ctx.violation = lambda case, what, key=None: sink.append((case, what, key))
    try:
        for c, r in zip(cases, results):
            if "error" in r:
                ctx.violation(c, "harness could not run the case: " + r["error"])
                continue
            if "crash" in r:
                ctx.violation(c, "the interpreter died (signal/exit %s) while running this operation sequence" % r["crash"])
                continue
            if c["kind"] == "static":
                eval_static(ctx, c, r, statics, None)
            else:
                eval_seq(ctx, c, r, seqcases, owner)
    finally:
        ctx.violation = real_violation
    return seqcases, owner, statics


def case_id(c):
    import json
    return json.dumps({k: v for k, v in c.items() if k != "ops"}, sort_keys=True) + json.dumps(c.get("ops", [])[:0])


def evaluate(ctx, cases, asan=False):
    s = ctx.scratch(asan=asan)
    chunk = 1 if len(cases) <= 40 else 25
    out, p = s.run_worker("c16_worker.py", dict(cases=cases, types=[t[0] for t in ITEMS], chunk=chunk), timeout=2400)
    if out is None:
        ctx.violation(cases[0], "C16 worker crashed (rc=%s): %s" % (p.returncode, (p.stderr or p.stdout)[-1500:]))
        return
    for t, size, _ in ITEMS:
        if out["sizes"][t] != size:
            ctx.obligation_broken("C16 item table: sizeof(%s) = %d, harness says %d" % (t, out["sizes"][t], size))
    for c in cases:
        ctx.count(max(1, len(c.get("ops", []))))
    first = []
    seqcases, owner, statics = classify(ctx, cases, out["results"], first)
    if first and chunk > 1:
        # false-alarm hygiene and attribution: every case that showed a violation is run again, alone, in
        # a fresh child; what is reported comes from that run (a victim of a neighbour's memory corruption
        # does not reproduce).  If nothing reproduces the first-pass observation is reported as it is.
        suspects, seen = [], set()
        full = {id(c): c for c in cases}
        for case, what, key in first:
            orig = next((c for c in cases if c.get("item") == case.get("item") and c.get("init") == case.get("init")
                         and c.get("n") == case.get("n") and c.get("kind") == case.get("kind")
                         and c.get("ops", [])[:len(case.get("ops", []))] == case.get("ops", [])
                         and c.get("i") == case.get("i") and c.get("what") == case.get("what")), case)
            k = repr(sorted(orig.items(), key=lambda kv: kv[0]))
            if k not in seen:
                seen.add(k)
                suspects.append(orig)
        suspects = suspects[:60]
        out2, p2 = s.run_worker("c16_worker.py", dict(cases=suspects, types=[t[0] for t in ITEMS], chunk=1), timeout=1200)
        second = []
        if out2 is not None:
            saved = (ctx.cov["evaluations"], dict(ctx.extra.get("distribution", {})))
            classify(ctx, suspects, out2["results"], second)
        for case, what, key in (second or first):
            ctx.violation(case, what, key)
    else:
        for case, what, key in first:
            ctx.violation(case, what, key)
    if asan:
        return            # the sanitizer run only looks for crashes / sanitizer reports and wrong outcomes
    bad, outs, err = vlib.coq_mismatches(
        ["C16.Model"], "fun c => match c with (b, st, ops) => run_obs b st ops end", "obs_eqb", seqcases,
        prelude="Open Scope Z_scope.", shard=120)
    if err:
        ctx.obligation_broken("C16 model evaluation", err)
    for i in bad:
        ctx.mismatch(owner[i], "model run = %s; implementation (final memory, outcomes) = %s"
                     % (outs.get(i), seqcases[i][1]), "C16.Model.run vs cdata operations")
    if statics:
        sc = [(x[2], x[3]) for x in statics]
        bad, outs, err = vlib.coq_mismatches(
            ["C16.Model"], "fun r : res Z => r",
            "fun a b => match a, b with Ok x, Ok y => Z.eqb x y | Err x, Err y => exn_eqb x y | _, _ => false end",
            sc, prelude="Open Scope Z_scope.")
        if err:
            ctx.obligation_broken("C16 model evaluation (offsetof)", err)
        for i in bad:
            ctx.mismatch(dict(kind="static", expr=sc[i][0]), "model %s = %s, implementation %s"
                         % (sc[i][0], outs.get(i), sc[i][1]), "C16.Model.offsetof_index vs ffi.offsetof")
    for c in cases[:2]:
        ctx.sample(c)


def run(ctx):
    ctx.cov["rule"] = ("operation sequences (3-12 ops: index read/write, slice, slice assignment from list/tuple/"
                       "generator/bytes/bytearray/another view incl. overlapping and wrong-length sources, p+i, i+p, "
                       "p-i, p-q, addressof) over ffi.new('T[n]') for T in 8 integer types, char, double, struct and "
                       "n in 0..8, plus owning pointers ffi.new('T*'); indices biased to -1, 0, len-1, len, len+1, "
                       "+-2^63, beyond Py_ssize_t; raw-pointer dereferences only inside the base array. After every "
                       "operation: outcome and all bytes of the base array vs the reference written from the property "
                       "text (violation) and vs the Coq model (mismatch). Static: ffi.offsetof('T[]', i) and "
                       "addressof(x, i) vs x+i for 9 item types incl. zero-size, in forked children. Non-trivial = "
                       "sequence with >= 1 operation or a static case; distinct by full case.")
    ctx.assumptions += [
        "hand-written model C16/Model.v; tied by this run's differential test (outcomes and memory after every op)",
        "the reference Sim in tools/props/c16.py states the property (acceptance, IndexError, addresses, aliasing)",
        "conversion of Python values to item bytes is not modelled here (C03/C05); the harness supplies the bytes "
        "(struct / int.to_bytes) or the exception class, and the implementation is checked against them",
        "64-bit two's-complement Py_ssize_t and uintptr_t"]
    cases = generate(ctx)
    evaluate(ctx, cases)
    if ctx.thorough:
        # the same sequences on a backend built with -fsanitize=address,undefined.  Pointer arithmetic with
        # offsets whose byte product leaves the address space (p + 2**62 ...) is excluded here: the backend
        # computes it with a signed multiplication / out-of-object pointer addition that UBSan reports although
        # the result is the modulo-2^64 address the model and the main pass require (reported as a remark, not
        # as a violation of this property).
        def asan_safe(c):
            if c["kind"] == "static":
                return abs(c["i"]) <= 1 << 40
            for op in c["ops"]:
                if op[0] in ("add", "subi", "addr") and (1 << 40) < abs(op[2]) and ssize_ok(op[2]):
                    return False
            return True
        sub = [c for c in cases if c["kind"] != "static" and asan_safe(c)][:600] + \
              [c for c in cases if c["kind"] == "static" and asan_safe(c)]
        evaluate(ctx, sub, asan=True)


MANIFEST = dict(
    technique="Coq proofs about a model of cdata indexing/slicing/pointer arithmetic (acceptance iff, view addresses, "
              "aliasing, ring identities mod 2^64, history invariant by induction over operation lists) + differential "
              "correspondence on random operation sequences with a byte model of the base allocation",
    text="Proved: x[i] accepted iff 0<=i<n else IndexError; x[i:j] accepted iff no step and 0<=i<=j<=n (bounds within "
         "Py_ssize_t) else IndexError, state untouched; slice view at x+i*size of length j-i aliasing x[i+k]; slice "
         "assignment from an iterable needs exactly j-i values (helper store_items only: C16_slice_assignment_count; the "
         "bytes / same-type cdata fast paths are correspondence-only); (p+i)[j] = p[i+j]; (p+i)-p = i; p - q on the "
         "REGENERATED arithmetic of cdata_sub (C16/Gen.v gen_sub_prog: guard constant, signed-or-size_t operands of the "
         "`%` test and of the division, interpreted by Model.sub_arith with C's truncating Z.rem/Z.quot): "
         "C16_ptr_sub_exact (p - q = k iff the signed byte distance is k*itemsize, negative k included), "
         "C16_ptr_sub_valueerror_iff_not_multiple, C16_ptr_sub_total, C16_ptr_sub_voidp; owning pointer only "
         "index 0; offsetof('T[]',i) = i*size or OverflowError; addressof(x,i) = x+i in both directions when i*size fits "
         "Py_ssize_t; history invariant: after any sequence of index/slice/slice-assignment/p+i/p-i/p-q/addressof "
         "operations in which memory is reached through array views, no access escaped the owned array and every array "
         "view lies inside it. The two defects found (slice bounds beyond Py_ssize_t -> OverflowError; offsetof with "
         "zero-size items -> SIGFPE) are fixed in /repo (85f0b65, d1f06da); the model follows two flags regenerated "
         "from the source (C16/Gen.v) besides gen_sub_prog; everything else in Model.v (guard lists of "
         "_cdata_get_indexed_ptr / _cdata_getslicearg, the type test of cdata_sub) is hand-written and "
         "correspondence-only. Thorough tier repeats the sequences on an ASan/UBSan build.",
    note="Trusted: Coq kernel; hand model C16/Model.v (tied by differential testing); the reference semantics in "
         "tools/props/c16.py; CPython int/slice objects. Value conversion is out of scope (C03/C05). Theorems closed "
         "under the global context.",
    design_ref="DESIGN.md §4 C16")
