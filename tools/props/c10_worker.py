"""C10 worker (inside the scratch build): declare each enum in-line, through an out-of-line ABI module and
(optionally, batched) an API module; report size, signedness, values, ffi.string() results."""
import importlib
import importlib.util
import os
import sys

import cffi
from lib.vlib import worker_main


def decl_text(case, idx):
    items = ", ".join(n if e is None else "%s = %s" % (n, e) for n, e, _v in case["items"])
    return "enum c10e%d { %s };" % (idx, items)


def observe(ffi, lib, case, idx, const=None):
    tn = "enum c10e%d" % idx
    t = ffi.typeof(tn)
    r = dict(size=ffi.sizeof(t), signed=int(ffi.cast(t, -1)) < 0, kind=t.kind)
    r["values"] = [str(t.relements[n]) for n, _e, _v in case["items"]]
    r["strings"] = [ffi.string(ffi.cast(t, int(q))) for q in case["queries"]]
    if lib is not None:
        r["lib"] = [str(getattr(lib, n)) for n, _e, _v in case["items"]]
    if const is not None:
        r["const"] = [str(const(n)) for n, _e, _v in case["items"]]
    return r


def guarded(fn):
    try:
        return fn()
    except Exception as e:
        return dict(error=type(e).__name__, msg=str(e)[:200])


def main(payload):
    work = os.environ["VERIF_WORK"]
    out = []
    for idx, case in zip(payload["ids"], payload["cases"]):
        text = decl_text(case, idx)
        r = dict(decl=text)

        def inline():
            ffi = cffi.FFI()
            ffi.cdef(text)
            lib = ffi.dlopen(None)
            return observe(ffi, lib, case, idx)
        r["inline"] = guarded(inline)

        def abi():
            ffi = cffi.FFI()
            ffi.cdef(text)
            name = "_c10_abi_%d" % idx
            ffi.set_source(name, None)
            path = os.path.join(work, name + ".py")
            ffi.emit_python_code(path)
            spec = importlib.util.spec_from_file_location(name, path)
            mod = importlib.util.module_from_spec(spec)
            spec.loader.exec_module(mod)
            lib = mod.ffi.dlopen(None)
            return observe(mod.ffi, lib, case, idx, const=mod.ffi.integer_const)
        r["abi"] = guarded(abi)
        out.append(r)
    res = dict(results=out)
    if payload.get("api"):
        # one API module for all enums that the in-line FFI accepted and gcc accepts
        sel = [(idx, c) for idx, c, r in zip(payload["ids"], payload["cases"], out)
               if "error" not in r["inline"] and idx in payload["api"]]
        ffi = cffi.FFI()
        text = "\n".join(decl_text(c, idx) for idx, c in sel)
        ffi.cdef(text)
        ffi.set_source("_c10_api", text)

        def build():
            ffi.compile(tmpdir=work)
            sys.path.insert(0, work)
            return importlib.import_module("_c10_api")
        try:
            mod = build()
            api = {}
            for idx, c in sel:
                api[str(idx)] = guarded(lambda: observe(mod.ffi, mod.lib, c, idx, const=mod.ffi.integer_const))
            res["api"] = api
        except Exception as e:
            res["api_error"] = "%s: %s" % (type(e).__name__, str(e)[:1500])
    return res


if __name__ == "__main__":
    worker_main(main)
