"""C06/C10/C11 — fail-closed extraction of tables and small macros from the cffi sources.

Every function either returns exactly the structure it documents or raises
py2coq.Untranslatable (the caller then keeps the committed Gen.v snapshot and records
`fallback`). Nothing here interprets the data: meaning is given by coq/Cxx/Model.v.
"""
import ast
import os
import re

from lib import py2coq
from lib.py2coq import Untranslatable

NAME_OK = re.compile(r"^[A-Za-z0-9_ ]+$")


def cs(text):
    """Gallina literal for a C/Python identifier-like string (list N via s2l)."""
    if not NAME_OK.match(text):
        raise Untranslatable("unexpected characters in name %r" % (text,))
    return '(s2l "%s")' % text


def strip_c_comments(text):
    out, i, n = [], 0, len(text)
    while i < n:
        if text.startswith("/*", i):
            j = text.find("*/", i + 2)
            if j < 0:
                raise Untranslatable("unterminated comment")
            out.append(" ")
            i = j + 2
        elif text.startswith("//", i):
            j = text.find("\n", i)
            i = n if j < 0 else j
        elif text[i] == '"':
            j = i + 1
            while j < n and text[j] != '"':
                j += 2 if text[j] == "\\" else 1
            out.append(text[i:j + 1])
            i = j + 1
        elif text[i] == "'":
            j = i + 1
            while j < n and text[j] != "'":
                j += 2 if text[j] == "\\" else 1
            out.append(text[i:j + 1])
            i = j + 1
        else:
            out.append(text[i])
            i += 1
    return "".join(out)


def read(repo, rel):
    with open(os.path.join(repo, rel)) as f:
        return f.read()


# ------------------------------------------------------------------ Python tables

def py_int_constants(tree, prefix):
    """module-level `PREFIXxxx = <int>` in source order -> [(xxx, value)]"""
    out = []
    for n in tree.body:
        if (isinstance(n, ast.Assign) and len(n.targets) == 1 and isinstance(n.targets[0], ast.Name)
                and n.targets[0].id.startswith(prefix)):
            v = n.value
            if isinstance(v, ast.Constant) and type(v.value) is int:
                out.append((n.targets[0].id[len(prefix):], v.value))
            elif (isinstance(v, ast.UnaryOp) and isinstance(v.op, ast.USub)
                  and isinstance(v.operand, ast.Constant) and type(v.operand.value) is int):
                out.append((n.targets[0].id[len(prefix):], -v.operand.value))
            else:
                raise Untranslatable("%s is not an integer literal" % n.targets[0].id)
    if not out:
        raise Untranslatable("no %s* constants" % prefix)
    return out


def py_single_int(tree, name):
    r = py_int_constants(tree, name)
    r = [v for k, v in r if k == ""]
    if len(r) != 1:
        raise Untranslatable("%s not assigned exactly once" % name)
    return r[0]


def py_dict_str_name(node, prefix):
    """{'str': PREFIXname, ...} -> [(str, name)] (source order, duplicates kept)"""
    if not isinstance(node, ast.Dict):
        raise Untranslatable("not a dict literal")
    out = []
    for k, v in zip(node.keys, node.values):
        if not (isinstance(k, ast.Constant) and isinstance(k.value, str)):
            raise Untranslatable("dict key is not a string literal")
        if not (isinstance(v, ast.Name) and v.id.startswith(prefix)):
            raise Untranslatable("dict value is not a %s name" % prefix)
        out.append((k.value, v.id[len(prefix):]))
    return out


def py_dict_str_char(node):
    if not isinstance(node, ast.Dict):
        raise Untranslatable("not a dict literal")
    out = []
    for k, v in zip(node.keys, node.values):
        if not (isinstance(k, ast.Constant) and isinstance(k.value, str)
                and isinstance(v, ast.Constant) and isinstance(v.value, str) and len(v.value) == 1):
            raise Untranslatable("ALL_PRIMITIVE_TYPES entry is not 'name': 'k'")
        out.append((k.value, v.value))
    return out


# ------------------------------------------------------------------ C tables

def c_defines(text, prefix, allow_paren_neg=True):
    """`#define PREFIXxxx <int>` or `(-<int>)` -> [(xxx, value)] in source order"""
    out = []
    for m in re.finditer(r"^[ \t]*#[ \t]*define[ \t]+%s(\w+)[ \t]+(.*?)[ \t]*$" % re.escape(prefix),
                         strip_c_comments(text), re.M):
        body = m.group(2)
        mm = re.match(r"^(\d+)$", body) or re.match(r"^\(\s*(-\s*\d+)\s*\)$", body) or re.match(r"^(0x[0-9a-fA-F]+)$", body)
        if not mm:
            raise Untranslatable("#define %s%s: body %r is not an integer literal" % (prefix, m.group(1), body))
        out.append((m.group(1), int(mm.group(1).replace(" ", ""), 0)))
    if not out:
        raise Untranslatable("no #define %s*" % prefix)
    return out


def c_primitive_name_table(text):
    t = strip_c_comments(text)
    m = re.search(r"static\s+const\s+char\s*\*\s*primitive_name\s*\[\s*\]\s*=\s*\{(.*?)\}\s*;", t, re.S)
    if not m:
        raise Untranslatable("primitive_name[] not found")
    items = [x.strip() for x in m.group(1).split(",")]
    if items and items[-1] == "":
        items.pop()
    out = []
    for it in items:
        if it == "NULL":
            out.append(None)
        elif re.match(r'^"[A-Za-z0-9_ ]+"$', it):
            out.append(it[1:-1])
        else:
            raise Untranslatable("primitive_name[] entry %r" % it)
    # the code indexes primitive_name[num] after `primitive_in_range(num)`; make sure that is still so
    if not re.search(r"primitive_in_range\(num\)\s*&&\s*primitive_name\[num\]\s*!=\s*NULL\)\s*\{\s*"
                     r"x\s*=\s*new_primitive_type\(primitive_name\[num\]\);", t):
        raise Untranslatable("build_primitive_type no longer calls new_primitive_type(primitive_name[num])")
    if not re.search(r"if\s*\(num\s*==\s*_CFFI_PRIM_VOID\)\s*\{\s*x\s*=\s*new_void_type\(\);", t):
        raise Untranslatable("build_primitive_type: void case changed")
    return out


FLAGS = {"CT_PRIMITIVE_CHAR", "CT_PRIMITIVE_SIGNED", "CT_PRIMITIVE_UNSIGNED", "CT_PRIMITIVE_FLOAT",
         "CT_PRIMITIVE_COMPLEX", "CT_IS_LONGDOUBLE", "CT_IS_BOOL"}
WCHAR_COND = re.compile(r"^\(\s*\(\s*\(\s*wchar_t\s*\)\s*-\s*1\s*\)\s*>\s*0\s*\?\s*0\s*:\s*CT_IS_SIGNED_WCHAR\s*\)$")


def _macro_body(t, name):
    m = re.search(r"^[ \t]*#[ \t]*define[ \t]+%s\b((?:.*\\\n)*.*)" % name, t, re.M)
    if not m:
        raise Untranslatable("#define %s not found" % name)
    return m.group(1).replace("\\\n", " ")


def _split_top(s, sep):
    parts, depth, cur = [], 0, []
    for ch in s:
        if ch == "(":
            depth += 1
        elif ch == ")":
            depth -= 1
        if ch == sep and depth == 0:
            parts.append("".join(cur))
            cur = []
        else:
            cur.append(ch)
    parts.append("".join(cur))
    return [p.strip() for p in parts]


def c_enum_primitive_types(text):
    """[(export_name, c_typename, [flag, ...])] in table order (ENUM_PRIMITIVE_TYPES_WCHAR expanded with
    its HAVE_WCHAR_H definition)."""
    t = strip_c_comments(text)
    body = _macro_body(t, "ENUM_PRIMITIVE_TYPES")
    wbody = _macro_body(t, "ENUM_PRIMITIVE_TYPES_WCHAR")     # first definition = #ifdef HAVE_WCHAR_H
    if not re.search(r"#ifdef HAVE_WCHAR_H\s*\n\s*#\s*define ENUM_PRIMITIVE_TYPES_WCHAR", t):
        raise Untranslatable("ENUM_PRIMITIVE_TYPES_WCHAR is no longer defined under #ifdef HAVE_WCHAR_H")
    if not re.search(r"#define EPTYPE\(code, typename, flags\)\s+EPTYPE2\(code, #typename, typename, flags\)", t):
        raise Untranslatable("EPTYPE is no longer EPTYPE2(code, #typename, typename, flags)")
    m = re.search(r"types\[\]\s*=\s*\{\s*#define EPTYPE2\(code, export_name, typename, flags\)\s*\\\n"
                  r"\s*\{\s*export_name,\s*\\\n\s*sizeof\(typename\),\s*\\\n"
                  r"\s*offsetof\(struct aligncheck_##code, y\),\s*\\\n\s*flags\s*\\\n\s*\},", t)
    if not m:
        raise Untranslatable("descr_s table builder changed shape")
    body = re.sub(r"\bENUM_PRIMITIVE_TYPES_WCHAR\b", " " + wbody + " ", body)
    out, pos = [], 0
    body = body.strip()
    while pos < len(body):
        m = re.compile(r"\s*(EPTYPE2?)\s*\(").match(body, pos)
        if not m:
            raise Untranslatable("ENUM_PRIMITIVE_TYPES: unexpected text %r" % body[pos:pos + 40])
        depth, j = 1, m.end()
        while depth and j < len(body):
            depth += {"(": 1, ")": -1}.get(body[j], 0)
            j += 1
        if depth:
            raise Untranslatable("unbalanced parentheses in ENUM_PRIMITIVE_TYPES")
        args = _split_top(body[m.end():j - 1], ",")
        if m.group(1) == "EPTYPE":
            if len(args) != 3:
                raise Untranslatable("EPTYPE arity")
            code, tn, fl = args
            export = " ".join(tn.split())
        else:
            if len(args) != 4 or not re.match(r'^"[A-Za-z0-9_ ]+"$', args[1]):
                raise Untranslatable("EPTYPE2 arity/name")
            code, export, tn, fl = args[0], args[1][1:-1], args[2], args[3]
        flags = []
        for f in _split_top(fl, "|"):
            if f in FLAGS:
                flags.append(f)
            elif WCHAR_COND.match(f):
                flags.append("CT_IS_SIGNED_WCHAR_IF_SIGNED")
            else:
                raise Untranslatable("unknown flag expression %r" % f)
        out.append((export, " ".join(tn.split()), flags))
        pos = j
        while pos < len(body) and body[pos].isspace():
            pos += 1
    return out


def c_prim_int_macro(text, name="_cffi_prim_int"):
    """((size) == K ? ((sign) ? A : B) : ... : D)  ->  ([(K, A, B)], D)  (identifiers without _CFFI_PRIM_/_CFFI__)"""
    t = strip_c_comments(text)
    m = re.search(r"^[ \t]*#[ \t]*define[ \t]+%s\(size, sign\)((?:.*\\\n)*.*)" % name, t, re.M)
    if not m:
        raise Untranslatable("#define %s(size, sign) not found" % name)
    body = " ".join(m.group(1).replace("\\\n", " ").split())
    if not (body.startswith("(") and body.endswith(")")):
        raise Untranslatable("macro body not parenthesised")
    body = body[1:-1].strip()
    cases = []
    case = re.compile(r"^\(size\) == (\d+) \? \(\(sign\) \? (\w+) : (\w+)\) : ")
    while True:
        mm = case.match(body)
        if not mm:
            break
        cases.append((int(mm.group(1)), mm.group(2), mm.group(3)))
        body = body[mm.end():]
    if not cases or not re.match(r"^\w+$", body):
        raise Untranslatable("%s: unexpected shape near %r" % (name, body[:40]))
    return cases, body


def prim_ident(ident):
    """_CFFI_PRIM_X -> 'X';  _CFFI__UNKNOWN_PRIM -> '_UNKNOWN_PRIM' (names as in cffi_opcode.py after PRIM_ / as is)"""
    if ident.startswith("_CFFI_PRIM_"):
        return ident[len("_CFFI_PRIM_"):]
    if ident.startswith("_CFFI__"):
        return ident[len("_CFFI_"):]
    raise Untranslatable("unexpected identifier %s" % ident)


# ------------------------------------------------------------------ search_standard_typename

TOK = re.compile(r"""\s*(?:(?P<str>"(?:[^"\\]|\\.)*")|(?P<chr>'(?:[^'\\]|\\.)')|(?P<num>\d+)|(?P<id>[A-Za-z_]\w*)|"""
                 r"""(?P<op>==|!=|>=|<=|\|\||&&|[-+(){}\[\];:,<>!?]))""")


def _tokens(s):
    pos, out = 0, []
    s = s.rstrip()
    while pos < len(s):
        m = TOK.match(s, pos)
        if not m:
            raise Untranslatable("cannot tokenise near %r" % s[pos:pos + 30])
        kind = m.lastgroup
        out.append((kind, m.group(kind)))
        pos = m.end()
    return out


class _P:
    def __init__(self, toks):
        self.t, self.i = toks, 0

    def peek(self, k=0):
        return self.t[self.i + k] if self.i + k < len(self.t) else (None, None)

    def eat(self, *vals):
        for v in vals:
            if self.peek()[1] != v:
                raise Untranslatable("expected %r, found %r (token %d)" % (v, self.peek()[1], self.i))
            self.i += 1

    def num(self):
        k, v = self.peek()
        if k != "num":
            raise Untranslatable("expected a number, found %r" % (v,))
        self.i += 1
        return int(v)

    def chr(self):
        k, v = self.peek()
        if k != "chr" or len(v) != 3:
            raise Untranslatable("expected a plain character constant, found %r" % (v,))
        self.i += 1
        return ord(v[1])

    def ident(self):
        k, v = self.peek()
        if k != "id":
            raise Untranslatable("expected identifier, found %r" % (v,))
        self.i += 1
        return v

    def string(self):
        k, v = self.peek()
        if k != "str" or "\\" in v:
            raise Untranslatable("expected a plain string literal, found %r" % (v,))
        self.i += 1
        return v[1:-1]


def _parse_test(p):
    # if (size == N && !memcmp(p, "lit", L)) return IDENT;
    p.eat("if", "(", "size", "==")
    size = p.num()
    p.eat("&&", "!", "memcmp", "(", "p", ",")
    lit = p.string()
    p.eat(",")
    ln = p.num()
    p.eat(")", ")", "return")
    res = p.ident()
    p.eat(";")
    return dict(size=size, lit=lit, len=ln, res=res)


def _parse_switch(p, depth):
    # switch (p[POS]) { case 'c': items break; ... default: break; }
    p.eat("switch", "(", "p", "[")
    pos = p.num()
    p.eat("]", ")", "{")
    cases = []
    while p.peek()[1] == "case":
        p.eat("case")
        c = p.chr()
        p.eat(":")
        items = []
        while p.peek()[1] == "if":
            if p.peek(2)[1] == "size" and p.peek(3)[1] == ">=":
                if depth >= 1:
                    raise Untranslatable("more than two switch levels")
                p.eat("if", "(", "size", ">=")
                m = p.num()
                p.eat(")", "{")
                spos, scases = _parse_switch(p, depth + 1)
                p.eat("}")
                for _c, its in scases:
                    if any("sub" in it for it in its):
                        raise Untranslatable("nested sub-switch")
                items.append(dict(sub=dict(minsize=m, pos=spos, cases=scases)))
            else:
                items.append(_parse_test(p))
        p.eat("break", ";")
        cases.append((c, items))
    if p.peek()[1] == "default":
        p.eat("default", ":", "break", ";")
    p.eat("}")
    if len(set(c for c, _ in cases)) != len(cases):
        raise Untranslatable("duplicate case label")
    return pos, cases


def c_search_standard_typename(text):
    t = strip_c_comments(text)
    m = re.search(r"\bint\s+search_standard_typename\s*\(\s*const\s+char\s*\*\s*p\s*,\s*size_t\s+size\s*\)\s*\{", t)
    if not m:
        raise Untranslatable("search_standard_typename not found")
    depth, j = 1, m.end()
    while depth and j < len(t):
        depth += {"{": 1, "}": -1}.get(t[j], 0)
        j += 1
    p = _P(_tokens(t[m.end():j - 1]))
    # if (size < MIN || p[size-2] != '_' || p[size-1] != 't') return -1;
    p.eat("if", "(", "size", "<")
    minsize = p.num()
    p.eat("||", "p", "[", "size", "-", "2", "]", "!=")
    c1 = p.chr()
    p.eat("||", "p", "[", "size", "-", "1", "]", "!=")
    c2 = p.chr()
    p.eat(")", "return", "-", "1", ";")
    pos, cases = _parse_switch(p, 0)
    p.eat("return", "-", "1", ";")
    if p.peek()[0] is not None:
        raise Untranslatable("trailing tokens in search_standard_typename")
    return dict(minsize=minsize, suffix=(c1, c2), pos=pos, cases=cases)


def coq_test(t):
    return "mk_test %d %s %d %s" % (t["size"], cs(t["lit"]), t["len"], cs(prim_ident(t["res"])))


def coq_std_table(tb):
    lines = []
    for c, items in tb["cases"]:
        its = []
        for it in items:
            if "sub" in it:
                s = it["sub"]
                sub = ";\n          ".join("(%d%%N (* '%s' *), [%s])" % (c2, chr(c2), "; ".join("(%s)" % coq_test(x) for x in xs))
                                           for c2, xs in s["cases"])
                its.append("ISub %d %d [\n          %s]" % (s["minsize"], s["pos"], sub))
            else:
                its.append("ITest (%s)" % coq_test(it))
        lines.append("    (%d%%N (* '%s' *), [%s])" % (c, chr(c), ";\n        ".join(its)))
    return ("mk_std %d (%d%%N, %d%%N) %d [\n%s]" % (tb["minsize"], tb["suffix"][0], tb["suffix"][1], tb["pos"],
                                                   ";\n".join(lines)))
