"""C04 — ffi.cast to integer and character types follows C conversion rules.

Tie: regeneration of the decisive structure of cast_to_integer_or_char (branch order, strict flag, statements
after got_value:) and of the strict flag of do_cast's pointer branch into coq/C04/Gen.v (fail closed: a shape
change is a broken obligation) + correspondence.  Every integer/char target type x every source kind (Python int of any magnitude, bool,
finite float, 1-byte bytes, one-character str, pointer/array/function cdata) x boundary and random values on the
scratch build; int(ffi.cast(T, x)) is compared (a) with the mathematical definition computed here with Python
ints (truncate toward zero, reduce modulo 2^bits into T's range; _Bool by non-zeroness) — the property
predicate; (b) with gcc compiling the same conversion, for every input whose C conversion is defined;
(c) with the Coq model C04.Model.int_of_cast evaluated on the same inputs.
"""
import math
import os
import subprocess

from lib import vlib
from lib.vlib import cz, cpair
from props.c03 import STD, STDINT, ENUMS, ENUMS_CDEF, KS, boundary_values
from props import c04_regen

ID = "C04"

CHARS = ["char", "wchar_t", "char16_t", "char32_t"]
ALL_TYPES = STD + STDINT + CHARS + ENUMS
QUICK_TYPES = STD + ["int8_t", "uint16_t", "int32_t", "uint64_t", "intptr_t", "uintptr_t", "size_t",
                     "ssize_t"] + CHARS + ["enum e_u", "enum e_s", "enum e_sl"]
# the C type whose conversion semantics cffi's character types are documented to have
C_EQUIV = {"char": "unsigned char", "char16_t": "uint_least16_t", "char32_t": "uint_least32_t"}


def regen(ctx):
    c04_regen.regen(ctx, vlib)


def float_values(rng, nrand):
    vals = [0.0, -0.0, 0.5, -0.5, 0.9999999999999999, -0.9999999999999999, 1.5, -1.5, 2.5, -2.5,
            1e30, -1e30, 1e300, -1e300, 5e-324, -5e-324, 2.2250738585072014e-308, 1.7976931348623157e308,
            -1.7976931348623157e308, 255.99999999999997, -128.99999999999997, 4294967295.9999995]
    for k in KS + [52, 53, 62, 65]:
        p = float(2 ** k)
        for s in (1.0, -1.0):
            vals += [s * p, s * math.nextafter(p, math.inf), s * math.nextafter(p, 0.0)]
            if k <= 51:
                vals += [s * (p - 0.5), s * (p + 0.5), s * (p - 1.0), s * (p + 1.0)]
    for _ in range(nrand):
        m = rng.random() + 1.0
        vals.append(rng.choice([1.0, -1.0]) * m * 2.0 ** rng.choice([-30, -1, 0, 1, 6, 7, 8, 14, 15, 16, 30, 31, 32,
                                                                   33, 52, 62, 63, 64, 65, 80, 200]))
    seen, out = set(), []
    for v in vals:
        h = v.hex()
        if h not in seen:
            seen.add(h)
            out.append(v)
    return out


def sources(ctx):
    rng = ctx.rng
    src = []
    for v in boundary_values():
        src.append(dict(k="int", v=str(v)))
    for _ in range(ctx.n(15, 150)):
        src.append(dict(k="int", v=str(rng.choice([-1, 1]) * rng.getrandbits(rng.choice(
            [5, 8, 9, 16, 17, 31, 32, 33, 63, 64, 65, 66, 90, 128, 500])))))
    src += [dict(k="bool", v=True), dict(k="bool", v=False)]
    for x in float_values(rng, ctx.n(15, 200)):
        src.append(dict(k="float", hex=x.hex()))
    for b in sorted(set([0, 1, 65, 127, 128, 200, 255] + [rng.randrange(256) for _ in range(ctx.n(3, 30))])):
        src.append(dict(k="bytes", b=b))
    for cp in sorted(set([0, 1, 0x41, 0x7f, 0x80, 0xff, 0x100, 0x7fff, 0x8000, 0xd7ff, 0xd800, 0xdfff, 0xffff,
                          0x10000, 0x10ffff] + [rng.randrange(0x110000) for _ in range(ctx.n(3, 40))])):
        src.append(dict(k="str", cp=cp))
    for a in sorted(set([0, 1, 2 ** 31 - 1, 2 ** 31, 2 ** 32 - 1, 2 ** 32, 2 ** 47, 2 ** 63 - 1, 2 ** 63, 2 ** 64 - 16,
                         2 ** 64 - 1] + [rng.getrandbits(64) for _ in range(ctx.n(3, 30))])):
        src.append(dict(k="ptr", addr=str(a), ptype=rng.choice(["void *", "char *", "int *", "int(*)(int)", "long **"])))
    src += [dict(k="newptr"), dict(k="array"), dict(k="func", fn="strlen"), dict(k="func", fn="abs")]
    # sources the property does not list: the model states what the code does with them (errors explicit)
    src += [dict(k="inf", sign=1), dict(k="inf", sign=-1), dict(k="nan"), dict(k="byteslen", n=0), dict(k="byteslen", n=2),
            dict(k="byteslen", n=5), dict(k="strlen", n=0), dict(k="strlen", n=2), dict(k="strlen", n=4),
            dict(k="other", what="none"), dict(k="other", what="list"), dict(k="other", what="object")]
    return src


def generate(ctx):
    names = ALL_TYPES if ctx.thorough else QUICK_TYPES
    srcs = sources(ctx)
    cases = []
    for t in names:
        for s in srcs:
            cases.append(dict(s, t=t))
    # pointer -> intptr_t/uintptr_t -> pointer
    for s in srcs:
        if s["k"] in ("ptr", "newptr", "array", "func"):
            for via in ("uintptr_t", "intptr_t"):
                cases.append(dict(s, t=via, rt=via))
    return cases


def gcc_facts(ctx, names):
    """sizeof / signedness of each target type as gcc sees it (cffi's char types through C_EQUIV)."""
    if getattr(ctx, "_c04_facts", None):
        return ctx._c04_facts
    s = ctx.scratch()
    hdr = ("#include <stdint.h>\n#include <stddef.h>\n#include <stdio.h>\n#include <wchar.h>\n#include <sys/types.h>\n"
           + ENUMS_CDEF)
    body = [hdr, "int main(void) {"]
    for i, n in enumerate(names):
        cn = C_EQUIV.get(n, n)
        body.append('  printf("%%d %%d %%d\\n", %d, (int)sizeof(%s), ((%s)-1) > 0);' % (i, cn, cn))
    body.append("  return 0; }")
    src = os.path.join(s.work, "c04facts.c")
    with open(src, "w") as f:
        f.write("\n".join(body) + "\n")
    exe = os.path.join(s.work, "c04facts")
    p = subprocess.run(["gcc", "-w", "-o", exe, src], capture_output=True, text=True)
    if p.returncode:
        raise vlib.BuildError("C04 facts: " + p.stderr[-2000:])
    facts = {}
    for line in subprocess.run([exe], capture_output=True, text=True).stdout.splitlines():
        i, size, uns = (int(x) for x in line.split())
        facts[names[i]] = (size, not uns)
    ctx._c04_facts = facts
    return facts


def src_number(c):
    """(truncated integer value, nonzero?) of the source, computed with exact Python arithmetic"""
    k = c["k"]
    if k == "int":
        v = int(c["v"])
        return v, v != 0
    if k == "bool":
        return int(bool(c["v"])), bool(c["v"])
    if k == "float":
        p, q = float.fromhex(c["hex"]).as_integer_ratio()
        t = abs(p) // q
        return (t if p >= 0 else -t), p != 0
    if k == "bytes":
        return c["b"], c["b"] != 0
    if k == "str":
        return c["cp"], c["cp"] != 0
    return None, None          # address: known after the run


def reduce(signed, bits, z):
    z %= 1 << bits
    if signed and z >= 1 << (bits - 1):
        z -= 1 << bits
    return z


def gcc_oracle(ctx, items, facts):
    """items: list of (type name, C source expression); returns list of ints (the converted values)."""
    s = ctx.scratch()
    hdr = ("#include <stdint.h>\n#include <stddef.h>\n#include <stdio.h>\n#include <wchar.h>\n#include <sys/types.h>\n"
           + ENUMS_CDEF)
    body = [hdr, "int main(void) {"]
    for t, expr in items:
        cn = C_EQUIV.get(t, t)
        size, signed = facts[t]
        # volatile source so that the conversion is done by generated code where possible
        if signed:
            body.append('  printf("%%lld\\n", (long long)(%s)(%s));' % (cn, expr))
        else:
            body.append('  printf("%%llu\\n", (unsigned long long)(%s)(%s));' % (cn, expr))
    body.append("  return 0; }")
    src = os.path.join(s.work, "c04oracle.c")
    with open(src, "w") as f:
        f.write("\n".join(body) + "\n")
    exe = os.path.join(s.work, "c04oracle")
    p = subprocess.run(["gcc", "-w", "-O0", "-o", exe, src], capture_output=True, text=True)
    if p.returncode:
        raise vlib.BuildError("C04 oracle: " + p.stderr[-2000:])
    return [int(x) for x in subprocess.run([exe], capture_output=True, text=True).stdout.split()]


def c_expr(c, tname, size, signed):
    """C source expression for the source value when C defines the conversion to the target, else None"""
    k = c["k"]
    isbool = tname == "_Bool"
    if k in ("int", "bool", "bytes", "str"):
        v, _ = src_number(c)
        if -2 ** 63 <= v < 0:
            return "(-%dLL-1)" % (-v - 1)
        if 0 <= v < 2 ** 64:
            return "%dULL" % v if v >= 2 ** 63 else "%dLL" % v
        return None
    if k == "float":
        x = float.fromhex(c["hex"])
        t, _ = src_number(c)
        lo, hi = (-(1 << (8 * size - 1)), (1 << (8 * size - 1)) - 1) if signed else (0, (1 << (8 * size)) - 1)
        if isbool or lo <= t <= hi:          # C11 6.3.1.4: defined iff the truncated value fits
            return "(double)" + x.hex()
        return None
    return None


UNLISTED = ("inf", "nan", "byteslen", "strlen", "other")
EXC_CODE = {"TypeError": 1, "OverflowError": 2, "ValueError": 3}
KIND_CODE = {"signed": 0, "unsigned": 1, "bool": 2, "char": 3, "swchar": 4}


def tkind(tname, signed):
    if tname == "_Bool":
        return "bool"
    if tname in CHARS:
        return "swchar" if (tname == "wchar_t" and signed) else "char"
    return "signed" if signed else "unsigned"


def finding_key(case):
    return None


def evaluate(ctx, cases):
    names = []
    for c in cases:
        if c["t"] not in names:
            names.append(c["t"])
    facts = gcc_facts(ctx, [n for n in ALL_TYPES if n in names] + [n for n in names if n not in ALL_TYPES])
    s = ctx.scratch()
    out, p = s.run_worker("c04_worker.py", dict(cases=cases, enums_cdef=ENUMS_CDEF, types=names), timeout=900)
    if out is None:
        ctx.violation(cases[0], "C04 worker failed: rc=%s %s" % (p.returncode, (p.stderr[-1500:] or p.stdout[-500:])))
        return
    for n in names:
        if out["sizes"][n] != facts[n][0]:
            ctx.violation(dict(t=n, k="sizeof"), "sizeof(%s): cffi %d, gcc %d" % (n, out["sizes"][n], facts[n][0]))
    oracle_items, oracle_owner, model = [], [], {}
    for c, r in zip(cases, out["results"]):
        ctx.count()
        size, signed = facts[c["t"]]
        kind = tkind(c["t"], signed)
        ctx.hist("source", c["k"])
        ctx.hist("target", "%s%d" % (kind, size))
        if c["k"] in UNLISTED:
            # outside the property's list of sources: only the model is compared (explicit error outcomes)
            code = {"inf": 5, "nan": 6, "byteslen": 7, "strlen": 8, "other": 9}[c["k"]]
            a = c.get("n", 0)
            if r["ok"]:
                obs = (0, int(r["val"]))
            else:
                obs = (EXC_CODE.get(r["exc"].split(":")[0], 50), 0)
            model.setdefault((KIND_CODE[kind], size, code, a, 0) + obs, c)
            ctx.hist("unlisted_outcome", r["exc"].split(":")[0] if not r["ok"] else "ok")
            continue
        if not r["ok"]:
            ctx.violation(c, "ffi.cast(%r, <%s>) raised %s; every such cast must succeed" % (c["t"], c["k"], r["exc"]),
                          finding_key(c))
            continue
        got = int(r["val"])
        z, nonzero = src_number(c)
        if z is None:
            z = int(r["addr"])
            nonzero = z != 0
        if c.get("rt"):
            # pointer -> (u)intptr_t -> pointer
            want = reduce(signed, 64, z)
            if got != want or not r["same"] or int(r["back"]) != z:
                ctx.violation(c, "pointer %#x -> %s gives %d (expected %d); cast back gives %#x, equal to the original: %r"
                              % (z, c["rt"], got, want, int(r["back"]), r["same"]), finding_key(c))
            ctx.nontrivial(("rt", c["k"], c.get("addr"), c["rt"]))
            continue
        want = (1 if nonzero else 0) if kind == "bool" else reduce(signed, 8 * size, z)
        if got != want:
            ctx.violation(c, "int(ffi.cast(%r, %s)) = %d, C conversion gives %d" % (
                c["t"], {kk: vv for kk, vv in c.items() if kk not in ("t",)}, got, want), finding_key(c))
        if want != z or c["k"] not in ("int", "bool"):
            ctx.nontrivial((c["t"], c["k"], c.get("v"), c.get("hex"), c.get("b"), c.get("cp"), c.get("addr")))
        e = c_expr(c, c["t"], size, signed)
        if e is not None:
            oracle_items.append((c["t"], e))
            oracle_owner.append((c, got))
        # model input
        if c["k"] == "float":
            pnum, q = float.fromhex(c["hex"]).as_integer_ratio()
            a, b, code = pnum, -(q.bit_length() - 1), 1
        elif c["k"] in ("int", "bool"):
            a, b, code = (int(c["v"]) if c["k"] == "int" else int(bool(c["v"]))), 0, 0
        elif c["k"] == "bytes":
            a, b, code = c["b"], 0, 2
        elif c["k"] == "str":
            a, b, code = c["cp"], 0, 3
        else:
            a, b, code = z, 0, 4
        if ctx.thorough or code != 1 or (a + b) % 2 == 0 or abs(a) < 8:
            # quick: every non-float source, about half of the float sources (all are still checked
            # against the definition and gcc above)
            model.setdefault((KIND_CODE[kind], size, code, a, b, 0, got), c)
    for c in cases[:2] + cases[len(cases) // 2:len(cases) // 2 + 2] + cases[-2:]:
        ctx.sample(c)
    # ---- gcc: the same conversion compiled, wherever C defines it
    if oracle_items:
        vals = gcc_oracle(ctx, oracle_items, facts)
        ctx.extra["gcc_oracle_cases"] = len(vals)
        if len(vals) != len(oracle_items):
            ctx.obligation_broken("C04 gcc oracle output", "expected %d lines, got %d" % (len(oracle_items), len(vals)))
        else:
            for (c, got), v in zip(oracle_owner, vals):
                if got != v:
                    ctx.violation(c, "int(ffi.cast(%r, ...)) = %d but gcc converts the same value to %d" % (c["t"], got, v),
                                  finding_key(c))
    # ---- Coq model
    keys = list(model)
    coqcases = [(cpair(cz(k[0]), cz(k[1]), cz(k[2]), cz(k[3]), cz(k[4])), cpair(cz(k[5]), cz(k[6]))) for k in keys]
    ctx.extra["model_evaluations"] = len(coqcases)
    bad, outs, err = vlib.coq_mismatches(["C04.Model"], "fun c => match c with (k, sz, sc, a, b) => cast_obs k sz sc a b end",
                                         "pair_eqb Z.eqb Z.eqb", coqcases, shard=500, prelude="Open Scope Z_scope.")
    if err:
        ctx.obligation_broken("C04 model evaluation", err)
    for i in bad:
        ctx.mismatch(model[keys[i]], "model int_of_cast = %s, implementation %s on %s" % (
            outs.get(i), coqcases[i][1], coqcases[i][0]), "C04.Model.int_of_cast vs cast_to_integer_or_char/cdata_int")


def run(ctx):
    ctx.cov["rule"] = ("cases = (target type, source); targets: standard and <stdint.h> integer types, _Bool, char, wchar_t, "
                       "char16_t, char32_t, enums; sources: ints +-2^k+{-2..2} (k in {0,7,8,15,16,31,32,63,64,100}) and random "
                       "up to 500 bits, bools, floats (+-2^k and neighbours, +-0.5 offsets, +-0.0, 1e30, 1e300, subnormals, "
                       "random), single bytes, code points incl. surrogates and astral, pointers cast from boundary "
                       "addresses, ffi.new pointers/arrays, function cdata; plus pointer->(u)intptr_t->pointer round trips. "
                       "Non-trivial = the conversion changes the value or the source is not an int; distinct by (type, source).")
    ctx.assumptions += [
        "hand-written model C04/Model.v of cast_to_integer_or_char, _my_PyObject_AsBool, cdata_int and the pointer branch "
        "of do_cast; tied to the code by this run's differential test and by C04/Gen.v (branch order, strict flag, "
        "statements after got_value:, strict flag of do_cast's pointer branch, regenerated by tools/props/c04_regen.py "
        "— trusted translator, fail closed)",
        "reading: cffi's 'char' converts like C 'unsigned char' (int() gives 0..255), char16_t/char32_t are unsigned, "
        "wchar_t has the platform's signedness (documented cffi behaviour)",
        "float.__int__ truncates toward zero (CPython); gcc as oracle for conversions C defines; little-endian x86-64",
        "true addresses of ffi.new memory and libc functions obtained through ctypes, independently of ffi.cast"]
    evaluate(ctx, generate(ctx))


MANIFEST = dict(
    technique="Coq proof over all sources (ints of any magnitude, finite floats m*2^e, bytes, code points, addresses) "
              "against an independent, canonical specification of C conversion; decisive structure of "
              "cast_to_integer_or_char and the strict flag of do_cast's pointer branch regenerated from the source on "
              "every run (fail-closed translator tools/props/c04_regen.py -> coq/C04/Gen.v) and proved to give the hand "
              "model; link to the C03 store model; differential correspondence (impl vs definition, vs gcc, vs model)",
    text="PROVED (coq/C04/Props.v, all closed under the global context).  About the hand model C04/Model.v, for every "
         "integer/char target T (1..8 bytes) and every listed source s: C04_cast_succeeds (result is COk); "
         "C04_cast_exact (int(ffi.cast(T,x)) = the value of T's range congruent to trunc(x) modulo 2^bits = Spec.reduce); "
         "C04_reduce_canonical (reduce is in range, congruent, and the unique such value); C04_cast_bool (_Bool: 0/1 by "
         "non-zeroness of x itself, not of trunc x); C04_cast_in_range_id (in-range values unchanged); C04_cast_unlisted "
         "(str/bytes of another length, non-numbers: TypeError; inf: OverflowError; NaN: ValueError, except into _Bool); "
         "C04_ptr_roundtrip (pointer -> (u)intptr_t -> pointer returns the address, any pointer size 1..8).  "
         "Link to C03 (C03/Store.v convert_from_object integer branches): C04_cast_agrees_with_store (integer/_Bool "
         "target, Python int in range: the cast holds exactly the bytes encode_int that the store writes, and the store "
         "succeeds) and C04_cast_is_store_of_reduced (any Python int: the cast holds the bytes the store writes for "
         "reduce(v)).  "
         "REGENERATED into coq/C04/Gen.v on every run, by shape, fail closed (a shape change puts the snapshot back AND "
         "records a broken obligation): cast_branches (order of the source-kind tests of cast_to_integer_or_char, each "
         "branch body matched against its recorded text), cast_number_strict (strict argument of the final "
         "_my_PyLong_AsUnsignedLongLong), cast_tail (statements after got_value:, i.e. where `value = !!value` sits "
         "relative to the truncating store), cast_ptr_strict (strict argument of the integer conversion in do_cast's "
         "pointer branch, whose head - pointer-like cdata passes c_data through - and tail are matched by shape).  "
         "Proof obligations over the regenerated facts: C04_gen_cast_refines (C04/Interp.v gen_cast_bytes, which runs the "
         "regenerated branch order / flag / tail inside hand-written branch bodies, equals Model.cast_bytes for all T, s), "
         "C04_gen_cast_not_strict, C04_gen_ptr_refines (gen_cast_int_to_ptr over cast_ptr_strict = the hand model's "
         "masking conversion, never an error), C04_gen_int_to_ptr_total, C04_gen_ptr_roundtrip (the round trip through "
         "the regenerated conversion): an edit of the order, of either flag (0 -> 1) or of the tail breaks these proofs.  "
         "CORRESPONDENCE ONLY (hand-written, tied by the run): what each branch computes (branch_value: (wchar_t)ordinal, "
         "(unsigned char)res, (Py_intptr_t)c_data, _my_PyObject_AsBool, the masking/nb_int conversion), cdata_int, "
         "write_raw.  Every run casts all source kinds to all target types on the scratch build and compares "
         "int(ffi.cast(T,x)) with the definition (exact Python arithmetic), with gcc wherever C defines the conversion, "
         "and with Model.int_of_cast evaluated in Coq; pointer round trips are run on real addresses.",
    note="Trusted: Coq kernel; the translator c04_regen.py (regex shapes; fail-closed); hand-written branch bodies of "
         "C04/Model.v and C04/Interp.v (differential tie only); C03/Store.v as the store model (tied by the C03 check, not "
         "here); CPython float.__int__; gcc; ctypes for true addresses. 'char' is read as an unsigned code unit (cffi's "
         "documented behaviour). Not modelled: primitive cdata sources (int/char/float/enum cdata via nb_int), objects "
         "with __int__, the PyCFunction_Check/try_extract_directfnptr and FILE* branches; inf/nan and non-number "
         "sources are outside the property's statement (their outcomes are explicit in the model and compared). "
         "C04_gen_cast_not_strict is a reflexivity alarm on the regenerated flag, not a property of behaviour.",
    design_ref="DESIGN.md §4 C04")
