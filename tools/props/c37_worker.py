"""C37 worker: runs access histories over lib objects (in-line ffi.dlopen and out-of-line
emit_python_code + ffi.dlopen) opened on one compiled test library; prints canonical outputs.

A guard lib object on the same .so is kept open for the whole run: it resets the library's
globals before each history, reads them back afterwards and supplies the reference addresses of
functions / variables.  It is never part of a history."""
import importlib.util
import json
import os
import subprocess
import sys
import warnings

import cffi
import _cffi_backend
from lib.vlib import worker_main

warnings.simplefilter("ignore")
WORK = os.environ["VERIF_WORK"]


TYPES = "enum e0 { E0A, E0B = 5 };\nenum n0 { N0A = -2, N0B };\nstruct s0 { int a; };\n"


def vkind(ct):
    return "ptr" if ct.endswith("*") else "struct" if ct.startswith("struct") else "int"


LIBC_CDEF = """
    extern int optind; extern int opterr;
    int abs(int); size_t strlen(const char *); int atoi(const char *); long labs(long); int toupper(int);
"""


def vname(desc, k):
    """C name of variable k: unique per description (libraries may be loaded RTLD_GLOBAL side by side)"""
    if desc.get("libc"):
        names = ["optind", "opterr"]
        return names[k] if k < len(names) else "c37_nosuch_var_%d" % k
    return "d%d_var_%d" % (desc["tag"], k)


def fname(desc, f):
    if desc.get("libc"):
        names = ["abs", "strlen", "atoi", "labs", "toupper"]
        return names[f] if f < len(names) else "c37_nosuch_fn_%d" % f
    return "d%d_fn_%d" % (desc["tag"], f)


def cname(desc, c):
    return "K_%d" % c


def c_source(desc):
    out = [TYPES]
    for k, (ct, lo, hi) in enumerate(desc["vars"]):
        out.append("%s %s = {0};" % (ct, vname(desc, k)) if vkind(ct) == "struct" else "%s %s = 0;" % (ct, vname(desc, k)))
    for f, (kind, v) in enumerate(desc["fns"]):
        ct = desc["vars"][v][0]
        if kind == "get":
            out.append("%s %s(void) { return %s; }" % (ct, fname(desc, f), vname(desc, v)))
        else:
            out.append("%s %s(%s x) { %s o = %s; %s = x; return o; }" % (ct, fname(desc, f), ct, ct, vname(desc, v), vname(desc, v)))
    return "\n".join(out) + "\n"


def c_cdef(desc):
    if desc.get("libc"):
        return LIBC_CDEF + "".join("#define K_%d %d\n" % (c, k) for c, k in enumerate(desc["consts"]))
    out = [TYPES]
    for c, k in enumerate(desc["consts"]):
        out.append("#define K_%d %d" % (c, k))
    for k, (ct, lo, hi) in enumerate(desc["vars"]):
        out.append("extern %s %s;" % (ct, vname(desc, k)))
    for f, (kind, v) in enumerate(desc["fns"]):
        ct = desc["vars"][v][0]
        out.append("%s %s(%s);" % (ct, fname(desc, f), "void" if kind == "get" else ct))
    return "\n".join(out) + "\n"


class Env:
    """compiled library + the two front ends for one description"""

    def __init__(self, idx, desc):
        self.desc = desc
        self.keep = []
        desc["tag"] = idx
        if desc.get("libc"):
            self.so = None                        # ffi.dlopen(None): the process itself, libc symbols
        else:
            base = os.path.join(WORK, "c37lib_%d" % idx)
            with open(base + ".c", "w") as f:
                f.write(c_source(desc))
            self.so = base + ".so"
            subprocess.check_call(["gcc", "-w", "-shared", "-fPIC", "-O0", "-o", self.so, base + ".c"])
        cdef = c_cdef(desc)
        self.ffi_inline = cffi.FFI()
        self.ffi_inline.cdef(cdef)
        ffi = cffi.FFI()
        ffi.cdef(cdef)
        modname = "_c37_ool_%d" % idx
        ffi.set_source(modname, None)
        path = os.path.join(WORK, modname + ".py")
        ffi.emit_python_code(path)
        spec = importlib.util.spec_from_file_location(modname, path)
        mod = importlib.util.module_from_spec(spec)
        spec.loader.exec_module(mod)
        self.ffi_ool = mod.ffi
        gffi = cffi.FFI()
        gffi.cdef(cdef)
        self.gffi = gffi
        # the guard handle: in some runs opened RTLD_GLOBAL, so that the library's symbols are resolvable in the
        # process-global scope (what dlsym(NULL, name) searches) after a lib object was closed
        flags = (gffi.RTLD_GLOBAL | gffi.RTLD_NOW) if desc.get("global_guard") else 0
        self.guard = gffi.dlopen(self.so, flags)
        self.fn_addr = {}
        for f in range(len(desc["fns"])):
            self.fn_addr[int(gffi.cast("uintptr_t", getattr(self.guard, fname(desc, f))))] = f
        self.var_addr = {}
        for v in range(len(desc["vars"])):
            self.var_addr[int(gffi.cast("uintptr_t", gffi.addressof(self.guard, vname(desc, v))))] = v


def canon(env, ffi, x):
    if x is None:
        return ["none"]
    if isinstance(x, bool):
        return ["other", "bool"]
    if isinstance(x, int):
        return ["int", x]
    if isinstance(x, ffi.CData):
        kind = ffi.typeof(x).kind
        addr = int(ffi.cast("uintptr_t", x))
        if kind == "function":
            return ["fn", env.fn_addr.get(addr, -1)]
        if kind == "pointer":
            return ["ptr", env.var_addr.get(addr, -1)]
        return ["other", kind]
    return ["other", type(x).__name__]


def to_c(ffi, ct, z):
    """the Python value to store z into a variable / parameter of C type ct"""
    k = vkind(ct)
    if k == "ptr":
        return ffi.cast(ct, z)
    if k == "struct":
        return {"a": z}
    return z


def from_c(ffi, ct, x):
    """integer content of what reading a variable of C type ct gave"""
    k = vkind(ct)
    if k == "ptr" and isinstance(x, ffi.CData):
        return int(ffi.cast("uintptr_t", x))
    if k == "struct" and isinstance(x, ffi.CData):
        return int(x.a)
    return x


def attempt(env, ffi, thunk):
    try:
        return canon(env, ffi, thunk())
    except (cffi.FFIError, _cffi_backend.FFI.error):
        return ["err", "FFIError"]
    except (ValueError, AttributeError, OverflowError, TypeError, KeyError, NotImplementedError,
            RuntimeError, SystemError, OSError) as e:
        return ["err", type(e).__name__]


def run_case(env, case):
    desc = env.desc
    vct = [v[0] for v in desc["vars"]]

    def ctof(i):
        return vct[i] if i < len(vct) else "int"
    for v, z in enumerate(case["m0"]):
        setattr(env.guard, vname(desc, v), to_c(env.gffi, vct[v], z))
    libs = []
    for m in case["modes"]:
        ffi = env.ffi_inline if m == "inline" else env.ffi_ool
        if m == "inline" and case.get("fresh_ffi"):
            ffi = cffi.FFI()
            ffi.cdef(c_cdef(desc))
        if case.get("from_handle", [False] * len(case["modes"]))[len(libs)]:
            # a lib object made from a caller-supplied `void *` handle (auto_close = 0): the handle comes from ctypes
            import ctypes
            cd = ctypes.CDLL(env.so)
            env.keep.append(cd)
            libs.append((ffi, ffi.dlopen(ffi.cast("void *", cd._handle))))
        else:
            libs.append((ffi, ffi.dlopen(env.so)))
    outs = []
    for op in case["ops"]:
        kind, l = op[0], op[1]
        ffi, lib = libs[l]
        if kind == "read":
            r = attempt(env, ffi, lambda: from_c(ffi, ctof(op[2]), getattr(lib, vname(desc, op[2]))))
        elif kind == "write":
            r = attempt(env, ffi, lambda: setattr(lib, vname(desc, op[2]), to_c(ffi, ctof(op[2]), op[3])))
        elif kind == "fetch":
            r = attempt(env, ffi, lambda: getattr(lib, fname(desc, op[2])))
        elif kind == "call":
            f = op[2]
            isget = f < len(desc["fns"]) and desc["fns"][f][0] == "get"
            fct = ctof(desc["fns"][f][1]) if f < len(desc["fns"]) else "int"
            if isget:
                r = attempt(env, ffi, lambda: from_c(ffi, fct, getattr(lib, fname(desc, f))()))
            else:
                r = attempt(env, ffi, lambda: from_c(ffi, fct, getattr(lib, fname(desc, f))(to_c(ffi, fct, op[3]))))
        elif kind == "const":
            r = attempt(env, ffi, lambda: getattr(lib, "K_%d" % op[2]))
        elif kind == "addr":
            r = attempt(env, ffi, lambda: ffi.addressof(lib, vname(desc, op[2])))
        elif kind == "close":
            r = attempt(env, ffi, lambda: ffi.dlclose(lib))
        else:
            raise ValueError(kind)
        outs.append(r)
    final = [int(from_c(env.gffi, vct[v], getattr(env.guard, vname(desc, v)))) for v in range(len(desc["vars"]))]
    # leave nothing open behind (so that a later history starts from fresh lib objects)
    for ffi, lib in libs:
        try:
            ffi.dlclose(lib)
        except Exception:
            pass
    return dict(outs=outs, final=final)


def main(payload):
    envs = {}
    results = []
    for i, case in enumerate(payload["cases"]):
        sys.stderr.write("CASE %d\n" % i)
        sys.stderr.flush()
        key = case["desc_id"]
        if key not in envs:
            envs[key] = Env(key, payload["descs"][str(key)])
        try:
            results.append(run_case(envs[key], case))
            sys.stdout.write("R %s\n" % json.dumps(results[-1]))
            sys.stdout.flush()
        except Exception as e:
            # only the guard lib (never closed by any history) or the bookkeeping can raise here: the
            # library was unloaded or damaged underneath a lib object that is still open
            sys.stderr.write("GUARDFAIL %s: %s\n" % (type(e).__name__, str(e)[:200].encode("ascii", "replace").decode()))
            sys.stderr.flush()
            os._exit(3)
    return dict(results=results)


worker_main(main)
