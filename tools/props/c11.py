"""C11 — out-of-line ABI module equivalent to the in-line FFI.  (regen part; harness below)"""
import os
import subprocess

from lib import vlib, py2coq
from lib.vlib import cz, clist, cpair
from props import c11_regen as R

ID = "C11"
GEN = os.path.join(vlib.COQ, "C11", "Gen.v")


def regen(ctx):
    try:
        st = py2coq.write_if_changed(GEN, R.render(vlib.REPO))
        ctx.translator("C11/Gen.v", st)
    except (py2coq.Untranslatable, OSError, SyntaxError) as e:
        ctx.translator("C11/Gen.v", "fallback: %s" % e)
        # fail closed: the theorems would otherwise keep speaking about the snapshot of a source that changed
        ctx.obligation_broken("C11: regeneration of C11/Gen.v (codec in cffi_opcode.py, record emitters in recompiler.py, "
                              "decoder texts / ffiobj_init sign-value statements in src/c no longer have the recorded "
                              "shape)", str(e))
    # C11_global_lookup / C11_typename_lookup speak about the binary search regenerated from parse_c_type.c
    from props import c25_regen
    c25_regen.regen_file(vlib, ctx, "C11")


# --------------------------------------------------------------------------- generators

PRIMS = ["char", "signed char", "unsigned char", "short", "unsigned short", "int", "unsigned int", "long",
         "unsigned long", "long long", "unsigned long long", "float", "double", "long double", "_Bool",
         "int8_t", "uint16_t", "int32_t", "uint64_t", "size_t", "ssize_t", "intptr_t", "wchar_t", "char16_t",
         "uint_fast8_t", "ptrdiff_t"]
BITFIELD_BASES = [("int", 32), ("unsigned int", 32), ("short", 16), ("unsigned char", 8), ("long long", 64),
                  ("unsigned long", 64)]
FUNCS = {
    "c11_add": "int c11_add(int, int);",
    "c11_mul": "long long c11_mul(long long, short);",
    "c11_half": "double c11_half(double);",
    "c11_id": "char *c11_id(char *);",
    "c11_noop": "void c11_noop(void);",
    "c11_sum3": "unsigned c11_sum3(unsigned char, unsigned short, unsigned);",
    "c11_mkpt": "struct c11_pt c11_mkpt(int, int);",
    "c11_ptx": "int c11_ptx(struct c11_pt *);",
    "c11_var": "int c11_var(int, ...);",
    "c11_getcb": "int (*c11_getcb(void))(int);",
}
VARS = {
    "c11_gi": "int c11_gi;",
    "c11_gull": "unsigned long long c11_gull;",
    "c11_gd": "double c11_gd;",
    "c11_gbuf": "char c11_gbuf[16];",
    "c11_gpt": "struct c11_pt c11_gpt;",
    "c11_gp": "int *c11_gp;",
}
LIBCONSTS = {"c11_kconst": "static const int c11_kconst;", "c11_kneg": "static const long long c11_kneg;"}
I31, I32, I63, I64 = 1 << 31, 1 << 32, 1 << 63, 1 << 64


class CdefGen:
    def __init__(self, rng, uid):
        self.rng, self.p = rng, "m%d_" % uid
        self.lines, self.n = [], 0
        self.complete = list(PRIMS)      # specs usable by value
        self.anyspec = ["void"]          # additional specs usable behind a pointer only
        self.types, self.consts = [], []
        self.trig = set()

    def fresh(self, kind):
        self.n += 1
        return "%s%s%d" % (self.p, kind, self.n)

    def base(self, by_value):
        r = self.rng
        pool = self.complete if by_value else self.complete + self.anyspec
        # prefer user-defined types when there are some
        user = [s for s in pool if s not in PRIMS and s != "void"]
        return r.choice(user) if user and r.random() < 0.55 else r.choice(pool)

    def decl(self, name, allow_func=True, top=False):
        """a declaration of `name` with a random type: returns the text without the trailing ';'"""
        r = self.rng
        k = r.random()
        if k < 0.30:
            return "%s %s" % (self.base(True), name)
        if k < 0.55:
            return "%s %s%s" % (self.base(False), "*" * r.choice([1, 1, 2]), name)
        if k < 0.72:
            dims = "".join("[%d]" % r.choice([1, 2, 3, 7, 16]) for _ in range(r.choice([1, 1, 2])))
            return "%s %s%s" % (self.base(True), name, dims)
        if k < 0.80:
            return "%s *%s[%d]" % (self.base(False), name, r.choice([1, 2, 5]))
        if k < 0.86:
            return "%s (*%s)[%d]" % (self.base(True), name, r.choice([2, 4]))
        if allow_func:
            nargs = r.choice([0, 1, 2, 3])
            args = []
            for i in range(nargs):
                b = self.base(False)
                args.append(b + " *" if (b == "void" or b in self.anyspec or r.random() < 0.4) else b)
            if r.random() < 0.15 and args:
                args.append("...")
            ret = r.choice(PRIMS + ["void", "void"]) if r.random() < 0.6 else self.base(False) + " *"
            return "%s (*%s)(%s)" % (ret, name, ", ".join(args) or "void")
        return "%s %s" % (self.base(True), name)

    def fields(self, depth=0, allow_bits=True):
        r = self.rng
        out = []
        for i in range(r.choice([1, 2, 2, 3, 4, 5])):
            self.n += 1
            fn = "f%d%s" % (self.n, "abc"[depth])
            k = r.random()
            if allow_bits and k < 0.15:
                b, bits = r.choice(BITFIELD_BASES)
                out.append("%s %s : %d;" % (b, fn, r.choice([1, 2, 3, 7, 8, 9, 15, 17, 31]) % bits or 1))
            elif k < 0.25 and depth < 2:
                kw = r.choice(["struct", "union"])
                out.append("%s { %s };" % (kw, " ".join(self.fields(depth + 1, allow_bits))))
            else:
                out.append(self.decl(fn) + ";")
        return out

    def add_struct(self):
        r = self.rng
        kw = r.choice(["struct", "struct", "union"])
        style = r.random()
        body = self.fields()
        if kw == "struct" and r.random() < 0.1:
            body.append("%s tail[];" % r.choice(["int", "char", "double"]))
        if style < 0.6:
            name = self.fresh("s")
            self.lines.append("%s %s { %s };" % (kw, name, " ".join(body)))
            spec = "%s %s" % (kw, name)
            self.types.append(spec)
            if "tail[]" not in " ".join(body):
                self.complete.append(spec)
            else:
                self.anyspec.append(spec)
        elif style < 0.85:
            name = self.fresh("t")
            self.lines.append("typedef %s { %s } %s;" % (kw, " ".join(body), name))
            self.types.append(name)
            (self.anyspec if "tail[]" in " ".join(body) else self.complete).append(name)
        else:
            tag, name = self.fresh("s"), self.fresh("t")
            self.lines.append("typedef %s %s { %s } %s, *%s_p;" % (kw, tag, " ".join(body), name, name))
            self.types += [name, name + "_p", "%s %s" % (kw, tag)]
            (self.anyspec if "tail[]" in " ".join(body) else self.complete).append(name)
            self.complete.append(name + "_p")

    def add_opaque(self):
        name = self.fresh("o")
        if self.rng.random() < 0.5:
            self.lines.append("struct %s;" % name)
            self.anyspec.append("struct %s" % name)
            self.types.append("struct %s *" % name)
        else:
            self.lines.append("typedef struct %s %s_t;" % (name, name))
            self.anyspec.append("%s_t" % name)
            self.types += ["%s_t *" % name]

    def add_typedef(self):
        name = self.fresh("t")
        self.lines.append("typedef %s;" % self.decl(name))
        self.types.append(name)
        self.complete.append(name)

    def add_enum(self):
        r = self.rng
        name = self.fresh("e")
        items, vals = [], []
        nxt = 0
        for i in range(r.choice([1, 2, 3, 5])):
            en = "%sE%d_%d" % (self.p.upper(), self.n, i)
            if r.random() < 0.5:
                v = r.choice([0, 1, -1, 5, 5, 255, -128, I31 - 1, I31, I32 - 1, I32, -I31, -I31 - 1, I63 - 1, I64 - 1,
                              -I63 + 1])
                if any(x < 0 for x in vals + [v]) and max(vals + [v]) >= I63:
                    v = 3
                items.append("%s = %s" % (en, ("%d" % v) if v < I63 else ("0x%x" % v)))
                nxt = v
            else:
                items.append(en)
            vals.append(nxt)
            self.consts.append(en)
            nxt += 1
            if nxt >= I64 or (nxt >= I63 and any(x < 0 for x in vals)):
                break         # an implicit next enumerator would not fit any more
        if r.random() < 0.7:
            self.lines.append("enum %s { %s };" % (name, ", ".join(items)))
            self.types.append("enum %s" % name)
            self.complete.append("enum %s" % name)
        else:
            self.lines.append("typedef enum { %s } %s;" % (", ".join(items), name))
            self.types.append(name)
            self.complete.append(name)

    def add_const(self):
        r = self.rng
        name = "%sK%d" % (self.p.upper(), self.n)
        self.n += 1
        v = r.choice([0, 1, -1, 42, 255, -32768, I31 - 1, I31, -I31, I32 - 1, I32, I63 - 1, I63, I64 - 1, -I63,
                      r.randrange(-I63, I64)])
        self.lines.append("#define %s %d" % (name, v))
        self.consts.append(name)


def gen_module(rng, uid, trigger=None, include_shape=None):
    g = CdefGen(rng, uid)
    names = dict(types=g.types, consts=g.consts, funcs=[], vars=[])
    opts = {}
    base = pre = None
    bases = None
    if (rng.random() < 0.16 and trigger is None) or include_shape:
        # included ffis: one base, 2-3 sibling bases, or a diamond (B1 and B2 both include B0; main includes B1, B2);
        # each declares a struct/union and a typedef, and the including ffi uses the types of every one of them
        shape = include_shape or rng.choice(["single", "single", "siblings2", "siblings2", "siblings3", "diamond", "chain"])
        nb = dict(single=1, siblings2=2, siblings3=3, diamond=3, chain=2)[shape]
        gens, bases = [], []
        for k in range(nb):
            b = CdefGen(rng, uid * 1000 + 990 + k)
            inc = []
            if (shape == "diamond" and k > 0) or (shape == "chain" and k == 1):
                inc = [0]
                b.complete += [x for x in gens[0].complete if x not in PRIMS]
                b.anyspec += [x for x in gens[0].anyspec if x != "void"]
            b.add_struct()
            b.add_typedef()
            if rng.random() < 0.4:
                b.add_enum()
            gens.append(b)
            bases.append(dict(cdef="\n".join(b.lines), inc=inc))
        main_inc = {"single": [0], "siblings2": [0, 1], "siblings3": [0, 1, 2], "diamond": [1, 2], "chain": [1]}[shape]
        if rng.random() < 0.5:
            main_inc = main_inc[::-1]
        if rng.random() < 0.4 or include_shape == "single":
            # declarations made BEFORE ffi.include(): own anonymous members numbered before the included ones are known
            pg = CdefGen(rng, uid * 1000 + 989)
            pg.add_struct()
            pre = "\n".join(pg.lines)
            g.types += pg.types
        use = []
        for k, b in enumerate(gens):
            g.complete += [x for x in b.complete if x not in PRIMS]
            g.anyspec += [x for x in b.anyspec if x != "void"]
            g.types += b.types
            g.consts += b.consts
            first = [x for x in b.complete if x not in PRIMS][:1]
            if first:
                use.append("%s u%d;" % (first[0], k) if rng.random() < 0.6 else "%s *u%d;" % (first[0], k))
        if use:     # one struct of the including ffi that uses a type of every included ffi
            un = g.fresh("s")
            g.lines.append("struct %s { %s };" % (un, " ".join(use)))
            g.types.append("struct %s" % un)
            g.complete.append("struct %s" % un)
        bases = dict(list=bases, main=main_inc, shape=shape)
    for _ in range(rng.choice([2, 3, 4, 6, 8, 10])):
        k = rng.random()
        if k < 0.35:
            g.add_struct()
        elif k < 0.60:
            g.add_typedef()
        elif k < 0.70:
            g.add_opaque()
        elif k < 0.85:
            g.add_enum()
        else:
            g.add_const()
    fs = [f for f in sorted(FUNCS) if rng.random() < 0.35]
    vs = [v for v in sorted(VARS) if rng.random() < 0.3]
    ks = []      # `static const int X;` is not readable through the in-line dlopen (NotImplementedError): outside the property
    if any("c11_pt" in (FUNCS.get(x) or VARS.get(x)) for x in fs + vs):
        g.lines.append("struct c11_pt { int x; int y; };")
        g.types.append("struct c11_pt")
    g.lines += [FUNCS[f] for f in fs] + [VARS[v] for v in vs] + [LIBCONSTS[k] for k in ks]
    names["funcs"], names["vars"] = fs, vs
    g.consts += ks
    if rng.random() < 0.1 and trigger is None:
        opts["packed"] = True
    # ---- triggers of the four known differences
    if trigger == "FILE":
        n = g.fresh("t")
        g.lines.append(rng.choice(["typedef FILE *%s;" % n, "typedef struct { FILE *fp; int n; } %s;" % n]))
        g.types.append(n)
    elif trigger == "pack":
        opts["pack"] = rng.choice([2, 4, 8])
        if not any(l.startswith(("struct", "typedef struct", "union", "typedef union")) and "{" in l for l in g.lines):
            g.add_struct()
    elif trigger == "biglen":
        n = g.fresh("t")
        g.lines.append("typedef char %s[%d];" % (n, rng.choice([I31, I31 + 1, I32 - 1, I32, I32 + 5])))
        g.types.append(n)
    elif trigger == "bigconst":
        n = "%sBIG" % g.p.upper()
        g.lines.append("#define %s %d" % (n, rng.choice([I64, I64 + 1, -I63 - 1, -I64, 3 * I64 + 7, -I64 - 9])))
        g.consts.append(n)
    return dict(kind="module", cdef="\n".join(g.lines), base=base, bases=bases, pre=pre, names=names, opts=opts,
                trigger=trigger)


def gen_codec(rng, n):
    ops = []
    opvals = [1, 3, 5, 7, 9, 11, 13, 15, 17, 19, 21, 29, 31, 33, 35, 37, 39, 41, 0, 255, 128]
    args = [0, 1, -1, 2, 127, 128, 255, 256, -256, 65535, 65536, (1 << 23) - 1, -(1 << 23), (1 << 23), -(1 << 23) - 1,
            1 << 24, -(1 << 24)]
    for _ in range(n):
        k = rng.random()
        if k < 0.5:
            ops.append(["op", rng.choice(opvals), str(rng.choice(args) if rng.random() < 0.5
                                                     else rng.randrange(-(1 << 23), 1 << 23))])
        elif k < 0.7:
            v = rng.choice([0, 1, 255, 256, 65535, I31 - 1, I31, I31 + 1, I32 - 1, I32, rng.randrange(0, I31),
                            rng.randrange(0, I32 + 10)])
            ops.append(["len", str(v)])
        elif k < 0.75:
            ops.append(["expr", rng.choice(["sizeof(x)", "-1", "n+1", "_cffi_array_len(a)", ""])])
        else:
            ops.append(["ffb", str(rng.choice(args + [I31 - 1, -I31, I32 - 1, rng.randrange(-I31, I32)]))])
    raw = ["%08x" % rng.choice([0, 0xFFFFFFFF, 0x80000000, 0x7FFFFFFF, 0xFFFFFF0B, 0x000000FF, 0x0000FF00,
                                0x00FF0000, 0xFF000000, rng.randrange(0, I32), rng.randrange(0, I32)]) for _ in range(n)]
    return dict(kind="codec", ops=ops, raw=raw)


def generate(ctx):
    rng = ctx.rng
    cases = [gen_codec(rng, ctx.n(600, 6000))]
    for u in range(ctx.n(90, 1200)):
        cases.append(gen_module(rng, u))
    for i, trig in enumerate(["FILE", "pack", "biglen", "bigconst"] * ctx.n(1, 4)):
        cases.append(gen_module(rng, 100000 + i, trigger=trig))
    # every include shape at least once per run (single = with declarations before include(): the fixed findings
    # include-anon-struct-name-clash / include-after-cdef-anon-struct-name-clash stay exercised)
    for i, shp in enumerate(["single", "siblings2", "siblings3", "diamond", "chain"] * ctx.n(1, 3)):
        cases.append(gen_module(rng, 200000 + i, include_shape=shp))
    # the two fixed include witnesses, verbatim
    cases.append(dict(kind="module", base="struct B { struct { long double a; }; int c; };", bases=None, pre=None,
                      cdef="struct A { struct { char x; }; struct B q; };",
                      names=dict(types=["struct A", "struct B"], consts=[], funcs=[], vars=[]), opts={}, trigger=None))
    cases.append(dict(kind="module", base="struct B { struct { long double a; }; int c; };", bases=None,
                      pre="struct A { struct { char x; }; int y; };", cdef="struct A2 { struct B q; };",
                      names=dict(types=["struct A", "struct A2", "struct B"], consts=[], funcs=[], vars=[]), opts={},
                      trigger=None))
    return cases


# --------------------------------------------------------------------------- evaluation

def build_tools(ctx):
    """test .so and the codec harness (real cdl_4bytes text cut out of cdlopen.c)"""
    import re
    s = ctx.scratch()
    lib = os.path.join(s.dir, "libc11test.so")
    exe = os.path.join(s.dir, "c11_harness")
    if not os.path.exists(lib):
        src = os.path.join(vlib.ROOT, "tools", "props", "c", "c11_testlib.c")
        p = subprocess.run(["gcc", "-w", "-O1", "-fPIC", "-shared", "-o", lib, src], capture_output=True, text=True)
        if p.returncode:
            raise RuntimeError("test library does not compile: " + p.stderr[-1500:])
    if not os.path.exists(exe):
        text = open(os.path.join(vlib.REPO, "src/c/cdlopen.c")).read()
        m = re.search(r"static Py_ssize_t cdl_4bytes\(char \*src\)\s*\{.*?\n\}\s*\n\s*static _cffi_opcode_t cdl_opcode\(char \*src\)\s*\{.*?\n\}",
                      text, re.S)
        if not m:
            raise vlib.BuildError("cdl_4bytes/cdl_opcode not found in cdlopen.c")
        hdr = os.path.join(s.dir, "c11_cdl_funcs.h")
        with open(hdr, "w") as f:
            f.write(m.group(0) + "\n")
        src = os.path.join(vlib.ROOT, "tools", "props", "c", "c11_harness.c")
        p = subprocess.run(["gcc", "-w", "-O1", "-o", exe, '-DCDL_FUNCS_H="%s"' % hdr,
                            "-I" + os.path.join(vlib.REPO, "src/cffi"), src], capture_output=True, text=True)
        if p.returncode:
            raise vlib.BuildError(p.stderr[-2000:])
    return lib, exe


def run_harness(exe, hexes):
    p = subprocess.run([exe], input="\n".join(hexes) + "\n", capture_output=True, text=True, timeout=120)
    if p.returncode:
        return None
    return [tuple(int(x) for x in line.split()) for line in p.stdout.splitlines()]


def base_text(case):
    t = case.get("base") or ""
    if case.get("bases"):
        t += "\n" + "\n".join(b["cdef"] for b in case["bases"]["list"])
    return t


def finding_key(case, kind, info):
    """narrow matcher of the four known differences; anything else -> None"""
    import re
    if kind == "emit_error":
        if info.get("emit_error") == "NotImplementedError" and case["opts"].get("pack", 0) > 1 \
                and "pack=" in info.get("emit_msg", ""):
            return "pack-gt1"
        if info.get("emit_error") == "OverflowError" and "limited to 2**31-1" in info.get("emit_msg", "") and any(
                int(x) >= I31 for x in re.findall(r"\[(\d+)\]", case["cdef"])):
            return "array-len-ge-2^31"
        return None
    if kind == "diff":
        d = info
        if d["cat"] == "list_types":
            if (not any(d["only_inline"]) and set(d["only_ool"][0]) <= {"FILE"} and set(d["only_ool"][1]) <= {"_IO_FILE"}
                    and not d["only_ool"][2] and "FILE" in case["cdef"]):
                return "list_types-FILE"
        if d["cat"] == "type" and "c1" in d:
            # `typedef struct TAG [{...}] NAME;`: the in-line ctype is called NAME, the out-of-line one `struct TAG`
            ren = {}
            for m in re.finditer(r"typedef (struct|union) (\w+) (?:\{.*?\} )?(\w+)(?:, \*\w+)?;", case["cdef"] + "\n" + base_text(case) + "\n" + (case.get("pre") or "")):
                ren[m.group(3)] = "%s %s" % (m.group(1), m.group(2))

            def norm(x):
                if isinstance(x, str):
                    for a, b in ren.items():
                        x = re.sub(r"\b%s\b" % re.escape(a), b, x)
                    return x
                if isinstance(x, list):
                    return [norm(y) for y in x]
                return x
            if ren and norm(d["c1"]) == d["c2"] and d["c1"] != d["c2"]:
                return "typedef-tagged-struct-name"
            anon = re.compile(r"(?<!typedef )\b(?:struct|union) \{")
            if base_text(case) and anon.search(base_text(case)) and case.get("pre") and anon.search(case["pre"]):
                return "include-after-cdef-anon-struct-name-clash"
            if base_text(case) and anon.search(base_text(case)) and anon.search(case["cdef"]):
                return "include-anon-struct-name-clash"
        if d["cat"] == "const":
            try:
                v, o = int(d["inline"]), int(d["ool"])
            except ValueError:
                return None
            if not (-I63 <= v < I64) and o == py_decode_int(v):
                return "int-const-outside-64bit"
    return None


def py_decode_int(o):
    value = o % I64
    if o <= 0:
        return value - I64 if value >= I63 else value
    return value


PRELUDE = """
From Cffi Require Import C11.Proofs.
(* one entry point for every model evaluation of this check: (tag, data) -> list Z *)
Definition enc_res (r : result (list Z)) : list Z :=
  match r with Ok x => 0 :: x | Err OverflowError => [1] | Err VerificationError => [2] end.
Definition c11_eval (x : Z * list Z) : list Z :=
  let d := snd x in
  let a := nth 0 d 0 in let b := nth 1 d 0 in
  match fst x with
  | 0 => enc_res (as_python_bytes (Op a b))
  | 1 => enc_res (as_python_bytes (OpLen a))
  | 2 => enc_res (as_python_bytes OpExpr)
  | 3 => enc_res (Ok (format_four_bytes a))
  | 4 => [cdl_4bytes d; fst (decode_op d); snd (decode_op d)]
  | 5 => snd (decode_typename (as_c d))
  | 6 => let '(ti, fl, nm) := decode_struct (as_c d) in fl :: nm
  | 7 => let '(ti, pr, nm, en) := decode_enum (as_c d) in nm ++ [-1] ++ en
  | 9 => decode_types d
  | _ => [decode_int 64 a]
  end.
"""


class CoqBatch:
    """all model evaluations of one run go through a single coqc invocation (sharded)"""

    def __init__(self):
        self.cases, self.on_bad = [], []

    def add(self, tag, data, expected, on_bad):
        self.cases.append(("(%s, %s)" % (cz(tag), zl(data)), zl(expected)))
        self.on_bad.append(on_bad)

    def run(self, ctx):
        if not self.cases:
            return
        bad, outs, err = vlib.coq_mismatches(["C11.Model", "C11.Gen"], "c11_eval", "list_eqb Z.eqb", self.cases,
                                             prelude=PRELUDE, shard=700)
        if err:
            ctx.obligation_broken("C11 model evaluation", err)
        for i in bad:
            self.on_bad[i](outs.get(i), self.cases[i][1])


def zl(xs):
    return "[" + "; ".join(cz(int(x)) for x in xs) + "]"


def eval_codec(ctx, case, r, exe, batch):
    enc = r["codec"]
    # (1) regenerated as_python_bytes / format_four_bytes vs the running Python code
    for item, e in zip(case["ops"], enc):
        ctx.count()
        tag = {"op": 0, "len": 1, "expr": 2, "ffb": 3}[item[0]]
        data = [int(item[1]), int(item[2])] if item[0] == "op" else ([int(item[1])] if item[0] != "expr" else [])
        if e[0] == "ok":
            exp = [0] + list(e[1])
        elif e[1] == "OverflowError":
            exp = [1]
        elif e[1] == "VerificationError":
            exp = [2]
        else:
            ctx.violation(dict(kind="codec", ops=[item], raw=[]), "as_python_bytes raised %s" % e[1])
            continue
        batch.add(tag, data, exp, lambda got, want, item=item: ctx.mismatch(
            dict(kind="codec", ops=[item], raw=[]),
            "regenerated as_python_bytes/format_four_bytes gives %s, the Python code %s (0::bytes | [1]=OverflowError | "
            "[2]=VerificationError)" % (got, want), "C11/Gen.v (py2coq translation) vs cffi_opcode.py"))
    # (2) the real C decoder on the real encoder's output: the round-trip predicate on the implementation
    hexes, owners = [], []
    for item, e in zip(case["ops"], enc):
        if e[0] == "ok":
            hexes.append("".join("%02x" % b for b in e[1]))
            owners.append(item)
    dec = run_harness(exe, hexes + case["raw"])
    if dec is None or len(dec) != len(hexes) + len(case["raw"]):
        ctx.violation(case, "cdlopen.c codec harness failed")
        return
    for item, d in zip(owners, dec):
        ctx.count()
        if item[0] == "op" and 0 <= item[1] < 256 and -(1 << 23) <= int(item[2]) < (1 << 23):
            ctx.nontrivial(("op", item[1], item[2]))
            if (d[1], d[2]) != (item[1], int(item[2])):
                ctx.violation(dict(kind="codec", ops=[item], raw=[]),
                              "CffiOp(%d, %s) is decoded by cdl_opcode/_CFFI_GETOP/_CFFI_GETARG as (%d, %d)"
                              % (item[1], item[2], d[1], d[2]))
        if item[0] == "len" and 0 <= int(item[1]) < I31:
            ctx.nontrivial(("len", item[1]))
            if d[0] != int(item[1]):
                ctx.violation(dict(kind="codec", ops=[item], raw=[]), "array length %s is decoded as %d" % (item[1], d[0]))
    # (3) hand model of the decoder vs the real C functions, on encoder outputs and raw patterns
    for h, d in zip(hexes + case["raw"], dec):
        batch.add(4, [int(h[i:i + 2], 16) for i in (0, 2, 4, 6)], list(d), lambda got, want, h=h: ctx.mismatch(
            dict(kind="codec", ops=[], raw=[h]), "model [cdl_4bytes; GETOP; GETARG] = %s, C code %s" % (got, want),
            "C11/Model.v cdl_4bytes/getop/getarg vs cdlopen.c + parse_c_type.h"))
    ctx.sample(dict(kind="codec", ops=case["ops"][:6], raw=case["raw"][:4]))


def rec_bad(ctx, c, kind, x):
    return lambda got, want: ctx.mismatch(
        c, "%s record %r: model decodes %s, reference slicing %s" % (kind, bytes(x), got, want),
        "C11/Model.v decode_typename/decode_struct/decode_enum vs the generated records (ffiobj_init, cdlopen.c)")


def eval_module(ctx, c, r, batch):
    st = r["status"]
    ctx.count(max(1, r.get("checked", 0)))
    if "inline_error" in st:
        ctx.hist("module", "inline-rejected")
        ex = ctx.extra.setdefault("inline_rejected_examples", [])
        if len(ex) < 3:
            ex.append(st["inline_error"])
        return
    if "emit_error" in st:
        ctx.hist("module", "emit-error:" + st["emit_error"])
        ctx.violation(c, "cdef accepted in-line but emit_python_code raises %s: %s" % (st["emit_error"], st.get("emit_msg")),
                      finding_key(c, "emit_error", st))
        return
    if "import_error" in st:
        ctx.hist("module", "import-error")
        ctx.violation(c, "generated module does not import: " + st["import_error"])
        return
    ctx.hist("module", "compared")
    ctx.hist("includes", (c.get("bases") or {}).get("shape", "single-legacy" if c.get("base") else "none")
             + ("+cdef-before-include" if c.get("pre") else ""))
    ctx.hist("decls", c["cdef"].count(";") // 4 * 4)
    ctx.nontrivial(("module", c["cdef"]))
    # ---- the property predicate on the implementation: every difference found by the worker
    for d in r["diffs"]:
        ctx.violation(c, d["what"][:900], finding_key(c, "diff", d))
    # ---- model of the record decoders vs what the implementation decoded (seen through list_types / relements)
    recs = r.get("records", {})
    td, st_, un = [sorted(x) for x in r["ool_list_types"]]
    # reference decoding by slicing (Python); it is tied to the implementation by the set comparison with the
    # imported module's list_types() below, and the Coq model is compared with it record by record
    ref_td, ref_st, ref_un = [], [], []
    for x in recs.get("_typenames", []):
        nm = bytes(x[4:])
        ref_td.append(nm.decode())
        batch.add(5, x, list(nm), rec_bad(ctx, c, "typename", x))
    for x in recs.get("_struct_unions", []):
        head = x[0]
        nm = bytes(head[8:])
        flags = int.from_bytes(bytes(head[4:8]), "big")
        (ref_un if flags & 1 else ref_st).append(nm.decode())
        batch.add(6, head, [flags] + list(nm), rec_bad(ctx, c, "struct (flags :: name)", head))
    vis = lambda l: sorted(n for n in l if not n.startswith("$"))
    if (vis(ref_td), vis(ref_st), vis(ref_un)) != (vis(td), vis(st_), vis(un)):
        ctx.mismatch(c, "records of the generated module name %r, the imported module lists %r" % (
            (vis(ref_td), vis(ref_st), vis(ref_un)), (vis(td), vis(st_), vis(un))),
            "names in the generated _typenames/_struct_unions records vs list_types() of the imported module")
    ty = recs.get("_types")
    if ty:
        # the whole _types string: model of the ffiobj_init loop vs 4-byte signed big-endian slicing
        ref = [int.from_bytes(bytes(ty[k:k + 4]), "big", signed=True) for k in range(0, len(ty) - len(ty) % 4, 4)]
        batch.add(9, ty, ref, rec_bad(ctx, c, "_types string (list of words)", ty))
    for x in recs.get("_enums", []):
        nm = bytes(x[8:]).split(b"\0")[0].decode()
        ens = r["enums"].get("enum " + nm)
        if ens is None:
            cand = [v for k2, v in r["enums"].items() if nm.lstrip("$") and nm.lstrip("$") in k2]
            ens = cand[0] if cand else None
        if ens is None:
            continue        # an enum that no declared name reaches (nothing observable to compare with)
        # relements is filled from the last enumerator to the first (b_new_enum_type): declared order = reversed
        batch.add(7, x, list(nm.encode()) + [-1] + list(",".join(reversed(ens)).encode()),
                  rec_bad(ctx, c, "enum (name, -1, enumerators)", x))
    # ---- model of ffiobj_init/realize_global_int on the emitted Python int vs the value the module returns
    for n, v1, v2, v3 in r.get("consts", []):
        try:
            a1, a2 = int(v1), int(v2)
        except ValueError:
            continue
        ctx.extra["constants_compared"] = ctx.extra.get("constants_compared", 0) + 1
        batch.add(8, [a1], [a2], lambda got, want, c=c, n=n, a1=a1: ctx.mismatch(
            c, "constant %s: model decode_int gives %s for the emitted value %d, the module returns %s" % (n, got, a1, want),
            "C11/Model.v decode_int vs ffiobj_init + realize_global_int"))


def evaluate(ctx, cases):
    s = ctx.scratch()
    lib, exe = build_tools(ctx)
    ids = list(range(len(cases)))
    out, p = s.run_worker("c11_worker.py", dict(cases=cases, ids=ids, lib=lib), timeout=1500)
    if out is None:
        # the process died (assert/abort/segfault in the backend): isolate the cases one by one
        results = []
        for i, c in zip(ids, cases):
            o1, p1 = s.run_worker("c11_worker.py", dict(cases=[c], ids=[i], lib=lib), timeout=300)
            if o1 is None:
                tail = [l for l in p1.stderr.splitlines() if "Warning" not in l and "warnings.warn" not in l][-6:]
                results.append(dict(worker_error="the interpreter died (rc=%s) while building/importing/using the "
                                                 "module: %s" % (p1.returncode, " | ".join(tail)[-600:])))
            else:
                results.append(o1["results"][0])
        out = dict(results=results)
    batch = CoqBatch()
    for c, r in zip(cases, out["results"]):
        if "worker_error" in r:
            ctx.violation(c, "worker error: " + r["worker_error"])
        elif c["kind"] == "codec":
            eval_codec(ctx, c, r, exe, batch)
        else:
            eval_module(ctx, c, r, batch)
    ctx.extra["model_evaluations"] = len(batch.cases)
    batch.run(ctx)
    for c in [c for c in cases if c["kind"] == "module"][:3]:
        ctx.sample(dict(kind="module", cdef=c["cdef"][:600], opts=c["opts"]))


def run(ctx):
    ctx.cov["rule"] = ("codec: random and boundary (op, arg), array lengths, raw 4-byte patterns through the running "
                       "cffi_opcode.py, the real cdl_4bytes/cdl_opcode (text cut out of cdlopen.c) and _CFFI_GETOP/_CFFI_GETARG, "
                       "and the Coq model. module: random cdefs (typedef chains over pointers/arrays/function pointers, named, "
                       "anonymous and typedef'd structs/unions with nested anonymous members, bitfields, flexible arrays, opaque "
                       "structs, enums, #define constants up to 64 bits, packed=True, included ffis (one, 2-3 siblings, chain, diamond; cdef before or after include()), functions/globals/"
                       "constants of a compiled test library) built in-line and through emit_python_code + import; compared: "
                       "every declared type (identity for aggregate-free types, kind/name/size/alignment/fields recursively "
                       "otherwise), list_types(), constants, dlopen addresses/types/values, dir(lib); plus one case per known "
                       "difference (FILE, pack=N, array >= 2^31, constant beyond 64 bits). Non-trivial = a module that was "
                       "compared / an (op,arg) or length inside the proved range.")
    ctx.assumptions += [
        "py2coq translation of format_four_bytes/as_python_bytes (compared with the running Python on every run)",
        "hand model C11/Model.v of cdl_4bytes, _CFFI_GETOP/_CFFI_GETARG, ffiobj_init record decoding, realize_global_int; "
        "source text shape-checked by tools/props/c11_regen.py and run against the C code / imported modules on every run",
        "gcc's definition of << on negative int (ISO C leaves ssrc[0] << 24 undefined for ssrc[0] < 0)",
        "LP64 (long = 64 bits) for decode_int",
        "whole-module equivalence is sampled (random cdefs), not proved: label partial"]
    evaluate(ctx, generate(ctx))


MANIFEST = dict(
    technique="Coq proof of the 4-byte opcode codec (regenerated encoder, hand-modelled C decoder; bit-level, all "
              "arguments), composed with the regenerated binary search of C25 (lookup by name in the decoded tables) + "
              "differential correspondence on whole generated modules",
    text="Proof: for every opcode < 256 and every 24-bit signed argument, the bytes written by the regenerated "
         "CffiOp.as_python_bytes/format_four_bytes are decoded by the model of cdl_4bytes/_CFFI_GETOP/_CFFI_GETARG to the "
         "same (op, arg); array lengths below 2^31, struct/field/enum/typename/global records with NUL-free names and "
         "integer constants in [-2^63, 2^64) survive (C11_int_constant; C11_int_constant_regenerated states it with the "
         "sign/value statements of ffiobj_init translated from cdlopen.c on every run); the whole `_types` string of any "
         "list of ops and the whole `_globals` / `_struct_unions` tuples decode to what they were built from "
         "(C11_types_table, C11_globals_table, C11_struct_unions_table); C11_global_lookup / C11_typename_lookup / "
         "C11_sorted_table_lookup: for every list of records with distinct names, sorted on the name, emitted and decoded, "
         "search_in_FIELD (C25.Gen.gen_search_in, regenerated from parse_c_type.c) finds every declared name at an index "
         "whose decoded record is the declared one; the statement is refuted outside the ranges by computed witnesses "
         "that are replayed on the implementation (known findings). Whole-module equivalence (types, fields, constants, "
         "list_types, dlopen) is checked on random cdefs against the in-line FFI: partial (sampling).",
    note="Regenerated: format_four_bytes, as_python_bytes holes, OP_/F_ tables, ffiobj_init neg/value expressions, "
         "search_sorted/MAKE_SEARCH_FUNC (C25/Gen.v). Pinned by text (regeneration fails closed = broken obligation), not "
         "translated: the record emitters of recompiler.py (encode_* are hand definitions in C11/Proofs.v), cdl_4bytes, "
         "the record decoding statements of ffiobj_init, realize_global_int's switch. The sort of the tables is specified "
         "as a stable insertion sort on byte order (sort_records), tied to list.sort only by the module correspondence. "
         "Trusted: Coq kernel; py2coq + shape checks; hand model of the C decoder (differentially tested against the "
         "real C text and real modules); gcc semantics of signed <<; LP64. Module equivalence (the headline clause: "
         "typedefs/structs/enums/function types equal, list_types, dlopen) is sampled, not proved.",
    design_ref="DESIGN.md §4 C11")
