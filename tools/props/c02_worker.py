"""C02 worker (runs against the scratch build of cffi): bitfield writes/reads on real structs.
payload: {cdef, so, placements: [{k, ...}], writes: [{k, v, seed}], reads: [{k, seed}]}
No judgement here."""
import random

import cffi
from lib.vlib import worker_main


def content(n, seed):
    r = random.Random(seed)
    kind = seed % 4
    if kind == 0:
        return bytes(n)
    if kind == 1:
        return b"\xff" * n
    return bytes(r.randrange(256) for _ in range(n))


def main(payload):
    ffi = cffi.FFI()
    ffi.cdef(payload["cdef"])
    ffi.cdef("unsigned long long bf_get(int, void *); void bf_set(int, void *, unsigned long long); int bf_sizeof(int);")
    lib = ffi.dlopen(payload["so"])
    info = {}
    objs = {}
    for pl in payload["placements"]:
        k = pl["k"]
        tp = ffi.typeof("struct s_%d" % k)
        fld = dict(tp.fields)["x"]
        p = ffi.new("struct s_%d *" % k)
        buf = ffi.buffer(p)
        lib.bf_set(k, p, 0xFFFFFFFFFFFFFFFF)
        mask = bytes(buf).hex()
        info[k] = dict(size=ffi.sizeof(tp), csize=lib.bf_sizeof(k), offset=fld.offset, bitshift=fld.bitshift,
                       bitsize=fld.bitsize, mask=mask, usize=ffi.sizeof(fld.type))
        objs[k] = (p, buf)
    wres = []
    for c in payload["writes"]:
        k = c["k"]
        p, buf = objs[k]
        buf[:] = content(len(buf), c["seed"])
        r = dict(before=bytes(buf).hex(), ok=False, exc=None, rb=None, cread=None)
        try:
            p.x = int(c["v"])
            r["ok"] = True
        except Exception as e:
            r["exc"] = type(e).__name__
        r["after"] = bytes(buf).hex()
        try:
            r["rb"] = str(int(p.x))
        except Exception as e:
            r["rb"] = "EXC:" + type(e).__name__
        r["cread"] = str(int(lib.bf_get(k, p)))
        wres.append(r)
    rres = []
    for c in payload["reads"]:
        k = c["k"]
        p, buf = objs[k]
        buf[:] = content(len(buf), c["seed"])
        r = dict(content=bytes(buf).hex())
        try:
            r["val"] = str(int(p.x))
        except Exception as e:
            r["val"] = "EXC:" + type(e).__name__
        r["cread"] = str(int(lib.bf_get(k, p)))
        rres.append(r)
    return dict(info=info, writes=wres, reads=rres)


worker_main(main)
