"""C02 worker (runs against the scratch build of cffi): bitfield writes/reads on real structs.
payload: {cdef, so, placements: [{k, ...}], writes: [{k, v, seed}], reads: [{k, seed}]}
No judgement here."""
import random

import cffi
from lib.vlib import worker_main


def content(n, seed):
    r = random.Random(seed)
    kind = seed % 4
    if kind == 0:
        return bytes(n)
    if kind == 1:
        return b"\xff" * n
    return bytes(r.randrange(256) for _ in range(n))


def multi(payload):
    res = []
    for k, c in enumerate(payload["cases"]):
        ffi = cffi.FFI()
        try:
            ffi.cdef(payload["prelude"])
            ffi.cdef(c["cdef"])
            ffi.cdef("unsigned long long m_get(int, void *); void m_set(int, void *, unsigned long long); "
                     "int m_sizeof(int);")
            lib = ffi.dlopen(payload["so"])
            p = ffi.new(c["T"] + " *")
            size = ffi.sizeof(c["T"])
        except Exception as e:
            res.append(dict(error=type(e).__name__))
            continue
        buf = ffi.buffer(p, size)
        r = dict(size=size, csize=lib.m_sizeof(k), trials=[])
        names = c["fields"]

        def reads():
            out = []
            for n in names:
                try:
                    out.append(str(int(getattr(p, n))))
                except Exception as e:
                    out.append("EXC:" + type(e).__name__)
            return out
        if r["size"] == r["csize"]:
            for t in c["trials"]:
                before = content(size, t["seed"])
                buf[:] = before
                tr = dict(before=before.hex(), ok=False, exc=None, reads_before=reads())
                try:
                    setattr(p, names[t["wi"]], int(t["v"]))
                    tr["ok"] = True
                except Exception as e:
                    tr["exc"] = type(e).__name__
                tr["after"] = bytes(buf).hex()
                tr["reads_after"] = reads()
                tr["creads_after"] = [str(int(lib.m_get(k * 64 + i, p))) for i in range(len(names))]
                buf[:] = before
                lib.m_set(k * 64 + t["wi"], p, int(t["v"]) & 0xFFFFFFFFFFFFFFFF)
                tr["cafter"] = bytes(buf).hex()
                r["trials"].append(tr)
        res.append(r)
    return dict(cases=res)


def main(payload):
    if payload.get("op") == "multi":
        return multi(payload)
    ffi = cffi.FFI()
    ffi.cdef(payload["cdef"])
    ffi.cdef("unsigned long long bf_get(int, void *); void bf_set(int, void *, unsigned long long); int bf_sizeof(int);")
    lib = ffi.dlopen(payload["so"])
    info = {}
    objs = {}
    for pl in payload["placements"]:
        k = pl["k"]
        tp = ffi.typeof("struct s_%d" % k)
        fld = dict(tp.fields)["x"]
        p = ffi.new("struct s_%d *" % k)
        buf = ffi.buffer(p)
        lib.bf_set(k, p, 0xFFFFFFFFFFFFFFFF)
        mask = bytes(buf).hex()
        info[k] = dict(size=ffi.sizeof(tp), csize=lib.bf_sizeof(k), offset=fld.offset, bitshift=fld.bitshift,
                       bitsize=fld.bitsize, mask=mask, usize=ffi.sizeof(fld.type))
        objs[k] = (p, buf)
    wres = []
    for c in payload["writes"]:
        k = c["k"]
        p, buf = objs[k]
        buf[:] = content(len(buf), c["seed"])
        r = dict(before=bytes(buf).hex(), ok=False, exc=None, rb=None, cread=None)
        try:
            p.x = int(c["v"])
            r["ok"] = True
        except Exception as e:
            r["exc"] = type(e).__name__
        r["after"] = bytes(buf).hex()
        try:
            r["rb"] = str(int(p.x))
        except Exception as e:
            r["rb"] = "EXC:" + type(e).__name__
        r["cread"] = str(int(lib.bf_get(k, p)))
        wres.append(r)
    rres = []
    for c in payload["reads"]:
        k = c["k"]
        p, buf = objs[k]
        buf[:] = content(len(buf), c["seed"])
        r = dict(content=bytes(buf).hex())
        try:
            r["val"] = str(int(p.x))
        except Exception as e:
            r["val"] = "EXC:" + type(e).__name__
        r["cread"] = str(int(lib.bf_get(k, p)))
        rres.append(r)
    return dict(info=info, writes=wres, reads=rres)


worker_main(main)
