"""C13 — shared between the check module and the worker (no cffi import here).

Type table, C source / cdef generation for the recording functions.

Every generated function
   RT f<i>(T0 a0, T1 a1, ...)
 * records errno as seen at entry (4 bytes) and then every argument into c13_rec[]:
     integers/chars/_Bool/float/double: the object representation (sizeof bytes)
     long double: the value converted to double (8 bytes)
     struct by value: every field, in order (no padding)
     pointer: 1 byte null flag (1 = non-null), then c13_plen[j] bytes of the pointee (a 64-bit hash of them
              when there are more than 64)
              (c13_plen[j] is set by the caller); a non-const pointee is then modified
              (every byte ^= 0xA5) so that effects on pointed-to memory are observable
     function pointer: null flag, then the int returned by cb(3)
 * sets errno = (errno_at_entry * 3 + i + 1) & 0x3fff
 * returns argument `ret.arg` or the constant `ret.const`.
Variadic functions `long long vf<i>(int a0, const char *fmt, ...)` read the variadic part as
described by fmt: i=int u=unsigned l=long long d=double p=void* s=struct s1.
"""

INTS = {
    'int8_t': (1, 1), 'uint8_t': (1, 0), 'int16_t': (2, 1), 'uint16_t': (2, 0),
    'int32_t': (4, 1), 'uint32_t': (4, 0), 'int64_t': (8, 1), 'uint64_t': (8, 0),
    'signed char': (1, 1), 'unsigned char': (1, 0), 'short': (2, 1), 'unsigned short': (2, 0),
    'int': (4, 1), 'unsigned int': (4, 0), 'long': (8, 1), 'unsigned long': (8, 0),
    'long long': (8, 1), 'unsigned long long': (8, 0), 'size_t': (8, 0), 'ssize_t': (8, 1),
    'intptr_t': (8, 1), 'uintptr_t': (8, 0),
}
CHARS = {'char': 1, 'wchar_t': 4, 'char16_t': 2, 'char32_t': 4}
FLOATS = {'float': 4, 'double': 8, 'long double': 16}
# struct name -> list of (field name, field type)  (no bitfields, no arrays: recorded field-wise)
STRUCTS = {
    'struct s1': [('a', 'int'), ('b', 'short')],
    'struct s2': [('x', 'double'), ('c', 'char')],
    'struct s3': [('a', 'long long'), ('b', 'long long'), ('c', 'long long')],
    'struct s4': [('c', 'signed char')],
    'struct s5': [('x', 'float'), ('y', 'float')],
    'struct s6': [('u', 'unsigned char'), ('h', 'unsigned short'), ('q', 'uint64_t'), ('w', 'int')],
}
STRUCT_SIZE = {'struct s1': 8, 'struct s2': 16, 'struct s3': 24, 'struct s4': 1, 'struct s5': 8,
               'struct s6': 24}
STRUCT_ALIGN = {'struct s1': 4, 'struct s2': 8, 'struct s3': 8, 'struct s4': 1, 'struct s5': 4,
                'struct s6': 8}
# structs with multi-dimensional array fields (no padding anywhere, so the object representation is the
# concatenation of the items): name -> (C field declarations, flattened item types in memory order, size, align).
# fb_fill_type flattens such fields into libffi's elements[]; <= 16 bytes travel in registers on x86-64.
ASTRUCTS = {
    'struct a1': ("float f[2][2];", ['float'] * 4, 16, 4),
    'struct a2': ("double d[1][2];", ['double'] * 2, 16, 8),
    'struct a3': ("int i[2][2];", ['int'] * 4, 16, 4),
    'struct a4': ("char c[2][2][2]; int k;", ['char'] * 8 + ['int'], 12, 4),
    'struct a5': ("float f[2][3];", ['float'] * 6, 24, 4),
    'struct a6': ("int i[2][2][2];", ['int'] * 8, 32, 4),
    'struct a7': ("char c[3][2]; short h[2][2];", ['char'] * 6 + ['short'] * 4, 14, 2),
    'struct a8': ("double d[2][2];", ['double'] * 4, 32, 8),
    'struct a9': ("float f[2]; float g[1][2];", ['float'] * 4, 16, 4),
    'struct a10': ("short h[2][2][2]; float x[1][1][2]; ", ['short'] * 8 + ['float'] * 2, 24, 4),
    'struct a11': ("unsigned char u[2][4]; double d[1][1];", ['unsigned char'] * 8 + ['double'], 16, 8),
}
# nested initializer shape of each field: list of (dims, number of items)
ASHAPES = {
    'struct a1': [[2, 2]], 'struct a2': [[1, 2]], 'struct a3': [[2, 2]], 'struct a4': [[2, 2, 2], []],
    'struct a5': [[2, 3]], 'struct a6': [[2, 2, 2]], 'struct a7': [[3, 2], [2, 2]], 'struct a8': [[2, 2]],
    'struct a9': [[2], [1, 2]], 'struct a10': [[2, 2, 2], [1, 1, 2]], 'struct a11': [[2, 4], [1, 1]],
}

# unions passed/returned by value (used by C14's extern "Python" cases): name -> (C members, first member type, size, align)
UNIONS = {
    'union u1': ("int i; float f;", 'int', 4, 4),
    'union u2': ("double d; char c[3];", 'double', 8, 8),
    'union u3': ("long long a; char pad[16];", 'long long', 16, 8),
    'union u4': ("short h; char c;", 'short', 2, 2),
    'union u5': ("unsigned int w; char pad[12];", 'unsigned int', 12, 4),
}
UNION_DECLS = "".join("%s { %s };\n" % (n, d[0]) for n, d in sorted(UNIONS.items()))

# pointer parameter types: name -> (item type name or 'void', const?)
PTRS = {
    'int *': ('int', 0), 'short *': ('short', 0), 'unsigned char *': ('unsigned char', 0),
    'char *': ('char', 0), 'const char *': ('char', 1), 'void *': ('void', 0),
    'const void *': ('void', 1), 'double *': ('double', 0), '_Bool *': ('_Bool', 0),
    'const _Bool *': ('_Bool', 1), 'uint64_t *': ('uint64_t', 0), 'int8_t *': ('int8_t', 0),
    'const wchar_t *': ('wchar_t', 1), 'wchar_t *': ('wchar_t', 0), 'const char16_t *': ('char16_t', 1),
    'struct s1 *': ('struct s1', 0), 'const unsigned char *': ('unsigned char', 1),
    'const struct s6 *': ('struct s6', 1), 'const struct s1 *': ('struct s1', 1),
    'float *': ('float', 0), 'const signed char *': ('signed char', 1),
}
FNPTR = 'c13_cb_t'


def sizeof(t):
    if t in INTS:
        return INTS[t][0]
    if t == '_Bool':
        return 1
    if t in CHARS:
        return CHARS[t]
    if t in FLOATS:
        return FLOATS[t]
    if t in STRUCTS:
        return STRUCT_SIZE[t]
    if t in ASTRUCTS:
        return ASTRUCTS[t][2]
    if t in PTRS or t == FNPTR:
        return 8
    if t == 'void':
        return 1
    raise KeyError(t)


def alignof(t):
    if t in STRUCTS:
        return STRUCT_ALIGN[t]
    if t in ASTRUCTS:
        return ASTRUCTS[t][3]
    return sizeof(t)


def kind(t):
    if t in INTS:
        return 'int'
    if t == '_Bool':
        return 'bool'
    if t in CHARS:
        return 'char'
    if t in FLOATS:
        return 'float'
    if t in STRUCTS:
        return 'struct'
    if t in ASTRUCTS:
        return 'astruct'
    if t in PTRS:
        return 'ptr'
    if t == FNPTR:
        return 'fnptr'
    if t == 'void':
        return 'void'
    raise KeyError(t)


def item_size(ptrtype):
    it = PTRS[ptrtype][0]
    return 1 if it == 'void' else sizeof(it)


PRELUDE_DECLS = """
struct s1 { int a; short b; };
struct s2 { double x; char c; };
struct s3 { long long a, b, c; };
struct s4 { signed char c; };
struct s5 { float x, y; };
struct s6 { unsigned char u; unsigned short h; uint64_t q; int w; };
typedef int (*c13_cb_t)(int);
""" + "".join("%s { %s };\n" % (n, d[0]) for n, d in sorted(ASTRUCTS.items())) + """
"""

CDEF_GLOBALS = """
extern unsigned char c13_rec[1024];
extern int c13_reclen;
extern int c13_plen[8];
extern unsigned char c13_gbuf[64];
int c13_helper(int);
"""

C_PRELUDE = """
#include <stdint.h>
#include <stddef.h>
#include <string.h>
#include <errno.h>
#include <stdarg.h>
#include <uchar.h>
#include <wchar.h>
#include <sys/types.h>
""" + PRELUDE_DECLS + """
unsigned char c13_rec[1024];
int c13_reclen;
int c13_plen[8];
unsigned char c13_gbuf[64];
int c13_helper(int x) { return x * 7 + 1; }
static void c13_put(const void *p, size_t n) {
    if (c13_reclen + n <= sizeof(c13_rec)) { memcpy(c13_rec + c13_reclen, p, n); c13_reclen += (int)n; }
}
static void c13_ptr(const void *p, int n, int writable) {
    unsigned char flag = (p != NULL);
    c13_put(&flag, 1);
    if (p != NULL && n > 64) {      /* long pointee: every byte is read, a 64-bit polynomial hash is recorded */
        unsigned long long h = 0; int k; const unsigned char *q = (const unsigned char *)p;
        for (k = 0; k < n; k++) h = h * 31 + q[k];
        c13_put(&h, 8);
        if (writable) { unsigned char *w = (unsigned char *)p; for (k = 0; k < n; k++) w[k] ^= 0xA5; }
    }
    else if (p != NULL && n > 0) {
        c13_put(p, (size_t)n);
        if (writable) { int k; unsigned char *q = (unsigned char *)p; for (k = 0; k < n; k++) q[k] ^= 0xA5; }
    }
}
"""


def c_literal(t, v):
    """C expression of type t for the canonical constant v"""
    k = kind(t)
    if k in ('int', 'char', 'bool'):
        return "(%s)%dULL" % (t, v & 0xFFFFFFFFFFFFFFFF)
    if k == 'float':
        import struct
        d = struct.unpack('<d', bytes.fromhex(v))[0]
        if d != d:
            return "(%s)__builtin_nan(\"\")" % t
        if d in (float('inf'), float('-inf')):
            return "(%s)(%s__builtin_inf())" % (t, '-' if d < 0 else '')
        return "(%s)%s" % (t, d.hex())
    if k == 'struct':
        return "(%s){%s}" % (t, ", ".join(c_literal(ft, fv) for (fn, ft), fv in zip(STRUCTS[t], v)))
    if k == 'astruct':      # flat initializer (brace elision)
        return "(%s){%s}" % (t, ", ".join(c_literal(ft, fv) for ft, fv in zip(ASTRUCTS[t][1], v)))
    if k == 'ptr':
        return "(%s)0" % t if v is None else "(%s)(c13_gbuf + %d)" % (t, v)
    raise KeyError(t)


def rec_code(t, expr, j):
    k = kind(t)
    if t == 'long double':
        return "{ double d_ = (double)%s; c13_put(&d_, 8); }" % expr
    if k in ('int', 'char', 'bool', 'float'):
        return "c13_put(&%s, sizeof(%s));" % (expr, expr)
    if k == 'struct':
        return " ".join(rec_code(ft, "%s.%s" % (expr, fn), j) for fn, ft in STRUCTS[t])
    if k == 'astruct':      # no padding: the whole object representation
        return "c13_put(&%s, sizeof(%s));" % (expr, expr)
    if k == 'ptr':
        return "c13_ptr((const void *)%s, c13_plen[%d], %d);" % (expr, j, 0 if PTRS[t][1] else 1)
    if k == 'fnptr':
        return ("{ unsigned char fl_ = (%s != 0); c13_put(&fl_, 1); if (%s) { int r_ = %s(3); c13_put(&r_, 4); } }"
                % (expr, expr, expr))
    raise KeyError(t)


def gen_function(i, sig):
    name = sig["name"]
    args = sig["args"]
    res = sig["res"]
    lines = []
    if sig.get("variadic"):
        lines.append("long long %s(int a0, const char *fmt, ...) {" % name)
        lines.append("  int e_ = errno; long long n_ = 0; va_list ap; c13_put(&e_, 4); c13_put(&a0, 4);")
        lines.append("  va_start(ap, fmt);")
        lines.append("  for (; *fmt; fmt++, n_++) { switch (*fmt) {")
        lines.append("    case 'i': { int v = va_arg(ap, int); c13_put(&v, 4); break; }")
        lines.append("    case 'u': { unsigned v = va_arg(ap, unsigned); c13_put(&v, 4); break; }")
        lines.append("    case 'l': { long long v = va_arg(ap, long long); c13_put(&v, 8); break; }")
        lines.append("    case 'd': { double v = va_arg(ap, double); c13_put(&v, 8); break; }")
        lines.append("    case 'p': { void *v = va_arg(ap, void *); c13_ptr(v, c13_plen[(int)n_ + 2 < 8 ? (int)n_ + 2 : 7], 1); break; }")
        lines.append("    case 's': { struct s1 v = va_arg(ap, struct s1); c13_put(&v.a, 4); c13_put(&v.b, 2); break; }")
        lines.append("  } }")
        lines.append("  va_end(ap);")
        lines.append("  errno = (e_ * 3 + %d) & 0x3fff;" % (i + 1))
        lines.append("  return n_ * 1000003LL + a0;")
        lines.append("}")
        return "\n".join(lines)
    params = ", ".join("%s a%d" % (t, j) for j, t in enumerate(args)) or "void"
    lines.append("%s %s(%s) {" % (res, name, params))
    lines.append("  int e_ = errno; c13_put(&e_, 4);")
    for j, t in enumerate(args):
        lines.append("  " + rec_code(t, "a%d" % j, j))
    lines.append("  errno = (e_ * 3 + %d) & 0x3fff;" % (i + 1))
    ret = sig["ret"]
    if res != 'void':
        if ret[0] == "arg":
            lines.append("  return a%d;" % ret[1])
        else:
            lines.append("  return %s;" % c_literal(res, ret[1]))
    lines.append("}")
    return "\n".join(lines)


def gen_source(sigs):
    return C_PRELUDE + "\n".join(gen_function(i, s) for i, s in enumerate(sigs)) + "\n"


def gen_cdef(sigs):
    out = [PRELUDE_DECLS, CDEF_GLOBALS]
    for s in sigs:
        if s.get("variadic"):
            out.append("long long %s(int, const char *, ...);" % s["name"])
        else:
            out.append("%s %s(%s);" % (s["res"], s["name"], ", ".join(s["args"]) or "void"))
    return "\n".join(out) + "\n"
