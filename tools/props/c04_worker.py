"""C04 worker (runs against the scratch build of cffi): performs ffi.cast to integer/char types from
every source kind and reports int() of the result.  No judgement here.

case: {t: ctype name, k: int|bool|float|bytes|str|ptr|newptr|array|func, ...}
      ptr-like kinds may carry rt: "uintptr_t"|"intptr_t" for the round-trip test."""
import ctypes

import cffi
from lib.vlib import worker_main


def main(payload):
    ffi = cffi.FFI()
    ffi.cdef(payload["enums_cdef"])
    ffi.cdef("size_t strlen(const char *); int abs(int);")
    C = ffi.dlopen(None)
    libc = ctypes.CDLL(None)
    keep = []
    out = []
    for c in payload["cases"]:
        r = dict(ok=False, exc=None, val=None)
        try:
            k = c["k"]
            addr = None
            if k == "int":
                x = int(c["v"])
            elif k == "bool":
                x = bool(c["v"])
            elif k == "float":
                x = float.fromhex(c["hex"])
            elif k == "bytes":
                x = bytes([c["b"]])
            elif k == "str":
                x = chr(c["cp"])
            elif k == "inf":
                x = float("inf") * c["sign"]
            elif k == "nan":
                x = float("nan")
            elif k == "byteslen":
                x = b"ab\0cd"[:c["n"]]
            elif k == "strlen":
                x = u"ab\u1234\U00012345c"[:c["n"]]
            elif k == "other":
                x = {"none": None, "list": [1], "object": object()}[c["what"]]
            elif k == "ptr":
                x = ffi.cast(c.get("ptype", "void *"), int(c["addr"]))
                addr = int(c["addr"])
            elif k == "newptr":
                x = ffi.new("int *")
                keep.append(x)
                addr = ctypes.addressof(ctypes.c_char.from_buffer(ffi.buffer(x)))
            elif k == "array":
                x = ffi.new("short[5]")
                keep.append(x)
                addr = ctypes.addressof(ctypes.c_char.from_buffer(ffi.buffer(x)))
            elif k == "func":
                x = getattr(C, c["fn"])
                addr = ctypes.cast(getattr(libc, c["fn"]), ctypes.c_void_p).value
            else:
                raise ValueError(k)
            if addr is not None:
                r["addr"] = str(addr)
            if c.get("rt"):
                u = int(ffi.cast(c["rt"], x))
                back = ffi.cast("void *" if k in ("array", "func") else ffi.typeof(x), u)
                r.update(ok=True, val=str(u), same=bool(back == ffi.cast("void *", x)),
                         back=str(int(ffi.cast("uintptr_t", back))))
            else:
                r.update(ok=True, val=str(int(ffi.cast(c["t"], x))))
        except Exception as e:
            r["exc"] = type(e).__name__ + ":" + str(e)[:120]
        out.append(r)
    sizes = {t: ffi.sizeof(t) for t in payload["types"]}
    return dict(results=out, sizes=sizes)


worker_main(main)
