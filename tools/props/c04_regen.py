"""C04 translator: anchored, fail-closed extraction of the decisive facts of cast_to_integer_or_char
(src/c/_cffi_backend.c) into coq/C04/Gen.v: the order of the source-kind branches, the `strict` argument of
the final integer conversion, and the statements after the label got_value (where `value = !!value` sits
relative to the store); and of the pointer branch of do_cast: the `strict` argument of its integer
conversion (`value = _my_PyLong_AsUnsignedLongLong(ob, STRICT)`), found by shape inside do_cast.
Any deviation from the recorded shapes raises TranslateError; the caller then restores the committed
snapshot (so that the Coq files still build against a known state) AND records a broken obligation: a
fact that can no longer be read off the source is never silently kept."""
import os
import re


class TranslateError(Exception):
    pass


def _ws(s):
    return " ".join(s.split())


def _match_brace(t, i):
    depth = 0
    for j in range(i, len(t)):
        if t[j] == "{":
            depth += 1
        elif t[j] == "}":
            depth -= 1
            if depth == 0:
                return j + 1
    raise TranslateError("unbalanced braces")


_COND = {
    "CData_Check(ob) && ((CDataObject *)ob)->c_type->ct_flags & (CT_POINTER|CT_FUNCTIONPTR|CT_ARRAY)": "CBPointer",
    "PyUnicode_Check(ob)": "CBUnicode",
    "PyBytes_Check(ob)": "CBBytes",
    "ct->ct_flags & CT_IS_BOOL": "CBBool",
}


def _tail(t):
    out = []
    t = t.strip()
    while t:
        m = re.match(r"^if \(ct->ct_flags & CT_IS_BOOL\) value = !!value; ?", t)
        if m:
            out.append("TNormalizeValue")
            t = t[m.end():]
            continue
        m = re.match(r"^cd = _new_casted_primitive\(ct\); ?", t)
        if m:
            out.append("TAlloc")
            t = t[m.end():]
            continue
        m = re.match(r"^if \(cd != NULL\) \{", t)
        if m:
            e = _match_brace(t, m.end() - 1)
            out += _tail(t[m.end():e - 1])
            t = t[e:].strip()
            continue
        m = re.match(r"^(?:if \(cd != NULL\) )?write_raw_integer_data\(cd->c_data, value, ct->ct_size\); ?", t)
        if m:
            out.append("TWrite")
            t = t[m.end():]
            continue
        m = re.match(r"^if \(ct->ct_flags & CT_IS_BOOL\) cd->c_data\[0\] = \(cd->c_data\[0\] != 0\); ?", t)
        if m:
            out.append("TNormalizeByte0")
            t = t[m.end():]
            continue
        m = re.match(r"^return cd; ?", t)
        if m:
            out.append("TReturn")
            t = t[m.end():]
            continue
        raise TranslateError("after got_value: unknown statement at %r" % t[:80])
    return out


def _ptr_strict(text):
    """the `strict` argument of the integer conversion in the pointer branch of do_cast.
    Recorded shape of that branch (first `if` of do_cast, target is a pointer / function pointer / array):
    it starts by passing the c_data of a pointer-like cdata source through unchanged, and ends with
        value = _my_PyLong_AsUnsignedLongLong(ob, STRICT);
        if (value == (unsigned PY_LONG_LONG)-1 && PyErr_Occurred()) return NULL;
        return new_simple_cdata((char *)(Py_intptr_t)value, ct);
    with exactly one call of _my_PyLong_AsUnsignedLongLong in the branch."""
    m = re.search(r"^static PyObject \*do_cast\(CTypeDescrObject \*ct, PyObject \*ob\)\n\{\n(.*?)^\}", text, re.M | re.S)
    if not m:
        raise TranslateError("do_cast not found")
    body = re.sub(r"/\*.*?\*/", " ", m.group(1), flags=re.S)
    if re.search(r"^\s*#", body, flags=re.M):
        raise TranslateError("do_cast: unexpected preprocessor line")
    b = _ws(body)
    m = re.match(r"^CDataObject \*cd; if \(ct->ct_flags & \(CT_POINTER\|CT_FUNCTIONPTR\|CT_ARRAY\) && ct->ct_size >= 0\) \{", b)
    if not m:
        raise TranslateError("do_cast: the pointer branch is not the first test")
    e = _match_brace(b, m.end() - 1)
    blk = b[m.end():e - 1].strip()
    if not b[e:].lstrip().startswith("else if (ct->ct_flags & (CT_PRIMITIVE_SIGNED|CT_PRIMITIVE_UNSIGNED |CT_PRIMITIVE_CHAR)) { "
                                     "return (PyObject *)cast_to_integer_or_char(ct, ob); }"):
        raise TranslateError("do_cast: integer/char targets are not dispatched to cast_to_integer_or_char "
                             "right after the pointer branch")
    head = (r"^unsigned PY_LONG_LONG value; if \(CData_Check\(ob\)\) \{ CDataObject \*cdsrc = \(CDataObject \*\)ob; "
            r"if \(cdsrc->c_type->ct_flags & \(CT_POINTER\|CT_FUNCTIONPTR\|CT_ARRAY\)\) \{ "
            r"return new_simple_cdata\(cdsrc->c_data, ct\); \} \} ")
    tail = (r" value = _my_PyLong_AsUnsignedLongLong\(ob, (\d+)\); "
            r"if \(value == \(unsigned PY_LONG_LONG\)-1 && PyErr_Occurred\(\)\) return NULL; "
            r"return new_simple_cdata\(\(char \*\)\(Py_intptr_t\)value, ct\);$")
    if not re.match(head, blk):
        raise TranslateError("do_cast pointer branch: pointer-like cdata sources no longer pass c_data through first: %r"
                             % blk[:160])
    mm = re.search(tail, blk)
    if not mm:
        raise TranslateError("do_cast pointer branch: does not end with the recorded integer conversion: %r" % blk[-260:])
    if blk.count("_my_PyLong_AsUnsignedLongLong(") != 1 or len(re.findall(r"\bvalue =(?!=)", blk)) != 1:
        raise TranslateError("do_cast pointer branch: more than one conversion / assignment to value")
    if mm.group(1) not in ("0", "1"):
        raise TranslateError("do_cast pointer branch: strict argument %r" % mm.group(1))
    return int(mm.group(1))


def translate(repo):
    text = open(os.path.join(repo, "src", "c", "_cffi_backend.c")).read()
    ptr_strict = _ptr_strict(text)
    m = re.search(r"^static CDataObject \*cast_to_integer_or_char\(CTypeDescrObject \*ct, PyObject \*ob\)\n\{\n(.*?)^\}",
                  text, re.M | re.S)
    if not m:
        raise TranslateError("cast_to_integer_or_char not found")
    body = re.sub(r"/\*.*?\*/", " ", m.group(1), flags=re.S)
    body = re.sub(r"^#(?:ifdef|endif).*$", "", body, flags=re.M)
    b = _ws(body)
    m = re.match(r"^unsigned PY_LONG_LONG value; CDataObject \*cd; ", b)
    if not m:
        raise TranslateError("declarations")
    t = b[m.end():]
    branches, blocks = [], {}
    first = True
    while True:
        m = re.match(r"^(?:else )?if \(", t) if not first else re.match(r"^if \(", t)
        if m:
            # condition up to the matching ') {'
            depth, j = 1, m.end()
            while depth:
                depth += t[j] == "("
                depth -= t[j] == ")"
                j += 1
            cond = t[m.end():j - 1].strip()
            if cond not in _COND:
                raise TranslateError("unknown source-kind test %r" % cond)
            name = _COND[cond]
            rest = t[j:].lstrip()
            if not rest.startswith("{"):
                raise TranslateError("branch without braces")
            e = _match_brace(rest, 0)
            blocks[name] = rest[1:e - 1].strip()
            branches.append(name)
            t = rest[e:].strip()
            first = False
            continue
        m = re.match(r"^else \{", t)
        if m:
            e = _match_brace(t, m.end() - 1)
            blocks["CBNumber"] = t[m.end():e - 1].strip()
            branches.append("CBNumber")
            t = t[e:].strip()
            break
        raise TranslateError("if/else chain: %r" % t[:80])
    if len(set(branches)) != len(branches):
        raise TranslateError("duplicate branch")
    want = {
        "CBPointer": r"^value = \(Py_intptr_t\)\(\(CDataObject \*\)ob\)->c_data;$",
        "CBUnicode": r"^char err_buf\[80\]; cffi_char32_t ordinal; if \(_my_PyUnicode_AsSingleChar32\(ob, &ordinal, err_buf\) < 0\) "
                     r"\{ PyErr_Format\(PyExc_TypeError, .*?\); return NULL; \} "
                     r"if \(ct->ct_flags & CT_IS_SIGNED_WCHAR\) value = \(wchar_t\)ordinal; else value = ordinal;$",
        "CBBytes": r"^int res = _convert_to_char\(ob\); if \(res < 0\) return NULL; value = \(unsigned char\)res;$",
        "CBBool": r"^int res = _my_PyObject_AsBool\(ob\); if \(res < 0\) return NULL; value = res;$",
        "CBNumber": r"^if \(PyCFunction_Check\(ob\)\) \{.*\} value = _my_PyLong_AsUnsignedLongLong\(ob, (\d+)\); "
                    r"if \(value == \(unsigned PY_LONG_LONG\)-1 && PyErr_Occurred\(\)\) return NULL;$",
    }
    strict = None
    for name in branches:
        mm = re.match(want[name], blocks[name])
        if not mm:
            raise TranslateError("branch %s does not have the recorded content: %r" % (name, blocks[name][:200]))
        if name == "CBNumber":
            strict = int(mm.group(1))
    if strict is None:
        raise TranslateError("no integer conversion branch")
    m = re.match(r"^got_value: (.*)$", t)
    if not m:
        raise TranslateError("label got_value")
    tail = _tail(m.group(1))
    L = ["(* GENERATED by tools/props/c04_regen.py from cast_to_integer_or_char and do_cast (src/c/_cffi_backend.c).",
         "   Do not edit: regenerated and re-checked on every run of ./check C04. *)",
         "From Coq Require Import List.",
         "From Cffi Require Import C04.IR.",
         "Import ListNotations.",
         "",
         "(* the if / else-if chain that classifies the source object, in order *)",
         "Definition cast_branches : list cast_branch := [%s]." % "; ".join(branches),
         "(* value = _my_PyLong_AsUnsignedLongLong(ob, STRICT) in the final else *)",
         "Definition cast_number_strict : bool := %s." % ("true" if strict else "false"),
         "(* the statements after got_value:, in order *)",
         "Definition cast_tail : list tstmt := [%s]." % "; ".join(tail),
         "(* do_cast, pointer branch: value = _my_PyLong_AsUnsignedLongLong(ob, STRICT); (char * )(Py_intptr_t)value *)",
         "Definition cast_ptr_strict : bool := %s." % ("true" if ptr_strict else "false")]
    return "\n".join(L) + "\n"


def regen(ctx, vlib):
    path = os.path.join(vlib.COQ, "C04", "Gen.v")
    old = open(path).read() if os.path.exists(path) else None
    try:
        new = translate(vlib.REPO)
    except (TranslateError, OSError, KeyError, IndexError) as e:
        snap = open(path + ".snapshot").read()
        if old != snap:
            with vlib.CoqLock():
                with open(path, "w") as f:
                    f.write(snap)
        ctx.translator("C04/Gen.v", "fallback: %s" % e)
        ctx.obligation_broken("C04: regeneration of C04/Gen.v from src/c/_cffi_backend.c (cast_to_integer_or_char / the "
                              "pointer branch of do_cast no longer have the recorded shape; the committed snapshot was "
                              "put back, its facts are NOT checked against this source)", str(e))
        return False
    if new == old:
        ctx.translator("C04/Gen.v", "unchanged")
    else:
        with vlib.CoqLock():
            with open(path, "w") as f:
                f.write(new)
        ctx.translator("C04/Gen.v", "regenerated")
    return True
