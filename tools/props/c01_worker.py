"""C01 worker (runs against the scratch build of cffi): declare every view with cdef() and report
ffi.sizeof / ffi.alignof / ffi.offsetof / typeof(T).fields, plus the bytes of a zeroed object after an
all-ones store into each bit-field narrower than 64 bits."""
import warnings

import cffi
from lib.vlib import worker_main


def one_case(prelude, case, views_out, alts_out):
    ffi = cffi.FFI()
    ffi.cdef(prelude)
    declared = {}
    opq = case.get("opaque")
    if opq:
        # (1) the tag is declared opaque, (2) used while opaque, (3) ONE later cdef() defines it together with the
        # aggregates its pointer fields refer to, (4) every aggregate is queried below
        try:
            ffi.cdef(opq["fwd"])
            if opq["use"] == "typeof":
                ffi.typeof(opq["ptr"])
            elif opq["use"] == "prototype":
                ffi.cdef("int use_%s(%sarg);" % (opq["tag"], opq["ptr"]))
                ffi.typeof("int(*)(%s)" % opq["ptr"])
            else:
                ffi.cdef("struct holder_%s { %sh; int z; };" % (opq["tag"], opq["ptr"]))
                ffi.sizeof("struct holder_%s" % opq["tag"])
            srcs = [d["src"] for d in case["decls"]]
            if opq["order"] == "top-first":
                srcs = srcs[-1:] + srcs[:-1]
            pack = case["decls"][-1]["pack"]
            if pack:
                ffi.cdef("\n".join(srcs), pack=pack)
            else:
                ffi.cdef("\n".join(srcs))
            for v in case["views"]:
                declared[v["tag"]] = None
        except Exception as e:
            for v in case["views"]:
                declared[v["tag"]] = "cdef sequence: " + type(e).__name__
    for d, v in (zip(case["decls"], case["views"]) if not opq else []):
        m = d.get("mention")
        if m:        # an earlier cdef() call that only mentions the tag, with its own packing options
            try:
                if m["pack"] == 0:
                    ffi.cdef(m["src"])
                elif m["packed_kw"]:
                    ffi.cdef(m["src"], packed=True)
                else:
                    ffi.cdef(m["src"], pack=m["pack"])
            except Exception as e:
                declared[v["tag"]] = "cdef(mention): " + type(e).__name__
                continue
        try:
            if d["pack"] == 0:
                ffi.cdef(d["src"])
            elif d["packed_kw"]:
                ffi.cdef(d["src"], packed=True)
            else:
                ffi.cdef(d["src"], pack=d["pack"])
            declared[v["tag"]] = None
        except Exception as e:
            declared[v["tag"]] = "cdef: " + type(e).__name__
    for v in case["views"]:
        if declared[v["tag"]]:
            views_out[v["tag"]] = dict(error=declared[v["tag"]])
            continue
        try:
            t = ffi.typeof(v["T"])
            res = dict(size=ffi.sizeof(t), align=ffi.alignof(t),
                       fields=[(n, f.offset, f.bitshift, f.bitsize, f.flags) for n, f in t.fields],
                       offsetof={}, written={})
        except Exception as e:
            views_out[v["tag"]] = dict(error=type(e).__name__)
            continue
        for f in v["fields"]:
            try:
                if f["bits"] < 0:
                    res["offsetof"][f["name"]] = ffi.offsetof(t, f["name"])
                elif f["bits"] < 64:
                    p = ffi.new(v["T"] + " *")
                    val = True if f["bool"] else ((1 << f["bits"]) - 1 if f["unsigned"] else -1)
                    setattr(p, f["name"], val)
                    res["written"][f["name"]] = bytes(ffi.buffer(p)).hex()[:2 * res["size"]] \
                        if res["size"] > 0 else ""
            except Exception as e:
                res["offsetof"][f["name"]] = "error " + type(e).__name__
        views_out[v["tag"]] = res
    if case.get("alt") and not declared.get(case["alt"]["tag"], True):
        alts_out[case["alt"]["tag"]] = alt_layout(ffi, case["alt"])


def alt_layout(ffi, alt):
    """complete a fresh struct/union type through the backend with explicit sflags / pack"""
    B = ffi._backend
    try:
        BS = (B.new_union_type if alt["union"] else B.new_struct_type)("alt_" + alt["tag"])
        lst = [(name, ffi.typeof(ts), bits) for name, ts, bits in alt["fields"]]
        B.complete_struct_or_union(BS, lst, None, -1, -1, alt["sflags"], alt["pack"])
        return dict(size=B.sizeof(BS), align=B.alignof(BS),
                    fields=[(n, f.offset, f.bitshift, f.bitsize, f.flags) for n, f in BS.fields])
    except Exception as e:
        return dict(error=type(e).__name__)


def main(payload):
    warnings.simplefilter("ignore")
    ffi = cffi.FFI()
    ffi.cdef(payload["prelude"])
    prims = {}
    for name in payload["prims"]:
        prims[name] = (ffi.sizeof(name), ffi.alignof(name))
    views, alts = {}, {}
    for case in payload["cases"]:
        one_case(payload["prelude"], case, views, alts)
    return dict(prims=prims, views=views, alts=alts)


worker_main(main)
