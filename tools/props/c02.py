"""C02 — bitfield reads and writes are range-exact, round-trip and isolated.

Tie: (a) regeneration: the mask/shift/range expressions and the full-width guard of
convert_to_object_bitfield / convert_from_object_bitfield are re-extracted from the source text into
coq/C02/Gen.v and shown (for every width 1..63 and shift 0..63) to be free of C undefined behaviour and
equal to the values the hand model uses; (b) correspondence: real structs `struct { T pad:sh; T x:w; }`
for (integer type, width, shift) placements x boundary and random values (and, stream "multi", C01's random
aggregates with several bit-fields: write one, re-read all, replay the write with gcc), on the scratch build:
setattr/getattr, ffi.buffer before/after, and a gcc-built accessor (which bits belong to the field,
what value C reads); the Coq model bf_write/bf_read is evaluated on the same unit contents.
"""
import os
import subprocess

from lib import vlib
from lib.vlib import cz, cbool, cpair
from props import c02_regen

ID = "C02"

# (C type, signed?) — gcc's storage-unit size is probed; plain short/int/long/long long bitfields are signed in gcc
TYPES = [("signed char", True), ("unsigned char", False), ("short", True), ("unsigned short", False),
         ("int", True), ("unsigned int", False), ("long", True), ("unsigned long", False),
         ("long long", True), ("unsigned long long", False), ("_Bool", False)]
SIZES = {"signed char": 1, "unsigned char": 1, "short": 2, "unsigned short": 2, "int": 4, "unsigned int": 4,
         "long": 8, "unsigned long": 8, "long long": 8, "unsigned long long": 8, "_Bool": 1}


def regen(ctx):
    c02_regen.regen(ctx, vlib)


def frange(signed, w):
    return (-(1 << (w - 1)), (1 << (w - 1)) - 1) if signed else (0, (1 << w) - 1)


def values_for(rng, signed, w, nrand):
    lo, hi = frange(signed, w)
    vals = {lo - 2, lo - 1, lo, lo + 1, -1, 0, 1, 2, hi - 1, hi, hi + 1, hi + 2, 2 ** 63 - 1, 2 ** 63, -2 ** 63,
            -2 ** 63 - 1, 2 ** 64 - 1, 2 ** 64, 2 ** 100, -2 ** 100, 1 << (w - 1), (1 << w) - 1, 1 << w}
    for _ in range(nrand):
        vals.add(rng.randint(lo, hi))
        vals.add(rng.choice([-1, 1]) * rng.getrandbits(rng.choice([w, w + 1, 64, 65])))
    return sorted(vals)


QUICK_WIDTHS = {4: [1, 2, 7, 8, 9, 15, 16, 17, 24, 31, 32], 8: [1, 2, 8, 31, 32, 33, 62, 63, 64]}


def placements(ctx):
    """(type, width, shift) with shift + width <= 8 * sizeof(type).  thorough: every width; every shift for units
    up to 32 bits, {0, max, max-1, 1, 3 random} for 64-bit units.  quick: every width for 8/16-bit units, a
    boundary-heavy subset for 32/64-bit units, shifts {0, max, random}."""
    rng = ctx.rng
    out = []
    for t, signed in TYPES:
        size = SIZES[t]
        bits = 8 * size
        if t == "_Bool":
            for sh in range(8):
                out.append((t, 1, sh))
            continue
        if ctx.thorough:
            widths = list(range(1, bits + 1))
        elif t in ("long", "unsigned long"):
            widths = [1, 33, 63, 64]
        elif size in QUICK_WIDTHS:
            widths = sorted(set(QUICK_WIDTHS[size] + [rng.randint(1, bits) for _ in range(3)]))
        else:
            widths = list(range(1, bits + 1))
        for w in widths:
            if ctx.thorough and bits <= 32:
                shifts = set(range(0, bits - w + 1))
            elif ctx.thorough:
                shifts = {0, 1, bits - w, max(0, bits - w - 1)} | {rng.randint(0, bits - w) for _ in range(3)}
            else:
                shifts = {0, bits - w, rng.randint(0, bits - w)}
            for sh in sorted(shifts):
                if 0 <= sh <= bits - w:
                    out.append((t, w, sh))
    return out


def generate(ctx):
    rng = ctx.rng
    cases = []
    # corpus: the width-64 defect fixed by 6dbf57f must stay fixed
    for t in ("long long", "unsigned long long", "long", "unsigned long"):
        for v in (5, -1, 0, 2 ** 63 - 1, 2 ** 63, -2 ** 63, 2 ** 64 - 1, 2 ** 64, -2 ** 63 - 1):
            cases.append(dict(op="write", type=t, w=64, sh=0, v=str(v), seed=rng.randrange(1 << 30)))
    for t, w, sh in placements(ctx):
        signed = dict(TYPES)[t]
        for v in values_for(rng, signed, w, ctx.n(1, 6)):
            cases.append(dict(op="write", type=t, w=w, sh=sh, v=str(v), seed=rng.randrange(1 << 30)))
        for _ in range(ctx.n(3, 8)):
            cases.append(dict(op="read", type=t, w=w, sh=sh, seed=rng.randrange(1 << 30)))
    cases += multi_cases(ctx)
    return cases


# ------------------------------------------------------------------ stream "multi": several fields in one object
# C01's random aggregates (any mix of bit-fields of different types sharing / not sharing storage units, plain
# members, nested and anonymous structs/unions, arrays, flexible tail) with at least two named bit-fields: one
# bit-field is written through cffi, every integer field is re-read (cffi and a gcc accessor), and the same write
# is replayed by gcc-compiled code on the same initial bytes.  Ties C02_fields_noninterfere /
# C02_layout_fields_disjoint on the implementation.

def _int_fields(top):
    from props import c01
    return [(n, b, c) for (n, b, c) in c01.flat_fields(top)
            if c in c01.BF_TYPES and (b > 0 or (b < 0 and c != "_Bool"))]


def _union_free(node):
    if node["u"]:
        return False
    return all(_union_free(f["t"]) for f in node["fields"] if not f["name"] and f["t"]["k"] == "agg")


def _zero_size(t):
    """struct/union types of compiler size 0 (only zero-width bit-fields / zero-size members): cffi gives them
    size 1 — C01's known finding zero_size_aggregate, which moves the members after them; not C02's subject"""
    if t["k"] == "arr":
        return t["n"] == 0 or _zero_size(t["item"])
    if t["k"] != "agg":
        return False
    return all(f["bits"] == 0 or (f["bits"] < 0 and _zero_size(f["t"])) for f in t["fields"])


def multi_cases(ctx):
    from props import c01
    rng = ctx.rng
    want, out, tries = ctx.n(40, 300), [], 0
    while len(out) < want and tries < 20000:
        tries += 1
        top = c01.rand_agg(rng, c01.Namer(), rng.choice([0, 0, 2, 3]), 0, False)
        for n in c01.agg_nodes(top):
            n["pack"], n["packed_kw"] = 0, False
        top["inline"] = False
        fl = _int_fields(top)
        bfs = [i for i, (n, b, c) in enumerate(fl) if b > 0]
        if len(bfs) < 2 or len(set(n for n, b, c in fl)) != len(fl):
            continue
        if any(_zero_size(n) for n in c01.agg_nodes(top)):
            continue
        trials = []
        for _ in range(ctx.n(4, 10)):
            wi = rng.choice(bfs)
            _n, b, c = fl[wi]
            lo, hi = frange(c not in c01.UNSIGNED, b)
            v = rng.choice([lo, hi, 0, min(hi, 1), rng.randint(lo, hi), rng.randint(lo, hi)])
            trials.append(dict(wi=wi, v=str(v), seed=rng.randrange(1 << 30)))
        out.append(dict(op="multi", top=top, trials=trials))
    return out


def multi_source(cases, prefix):
    """-> (per-case cdef text, C source of the accessor library); tags are assigned here"""
    from props import c01
    cdefs, csrc = [], [c01.PRELUDE_C]
    gets, sets, sizes = [], [], []
    for k, c in enumerate(cases):
        nodes = c01.assign_tags(c, "%s%d" % (prefix, k))
        decls = ["%s %s %s;" % (c01.kw(n), n["tag"], c01.body(n)) for n in nodes if not n["inline"]]
        cdefs.append("\n".join(decls))
        csrc.append("\n".join(decls))
        T = "%s %s" % (c01.kw(c["top"]), c["top"]["tag"])
        sizes.append(" case %d: return (int)sizeof(%s);" % (k, T))
        for fi, (name, b, ct) in enumerate(_int_fields(c["top"])):
            gets.append(" case %d: return (unsigned long long)(long long)((%s *)p)->%s;" % (k * 64 + fi, T, name))
            sets.append(" case %d: ((%s *)p)->%s = (%s)v; break;" % (k * 64 + fi, T, name, ct))
    csrc.append("unsigned long long m_get(int id, void *p) { switch (id) {\n%s\n } return 0; }" % "\n".join(gets))
    csrc.append("void m_set(int id, void *p, unsigned long long v) { switch (id) {\n%s\n } }" % "\n".join(sets))
    csrc.append("int m_sizeof(int k) { switch (k) {\n%s\n } return -1; }" % "\n".join(sizes))
    return cdefs, "\n".join(csrc) + "\n"


def evaluate_multi(ctx, cases):
    from props import c01
    s = ctx.scratch()
    cases = [c for c in cases if len(_int_fields(c["top"])) <= 64]
    tag = "c02m%d" % (getattr(ctx, "_c02_n", 0))
    ctx._c02_n = getattr(ctx, "_c02_n", 0) + 1

    def build(cs):
        cdefs, src = multi_source(cs, tag + "_")
        cfile = os.path.join(s.work, tag + ".c")
        with open(cfile, "w") as f:
            f.write(src)
        so = os.path.join(s.work, "lib%s.so" % tag)
        p = subprocess.run(["gcc", "-w", "-O0", "-fPIC", "-shared", "-o", so, cfile], capture_output=True, text=True)
        return cdefs, so, p
    cdefs, so, p = build(cases)
    if p.returncode:
        # a declaration outside C (gcc refuses it): find and drop the offenders, they are outside the property's class
        keep = []
        for c in cases:
            _cd, src = multi_source([c], tag + "_probe")
            q = subprocess.run(["gcc", "-w", "-fsyntax-only", "-x", "c", "-"], input=src, capture_output=True, text=True)
            if q.returncode == 0:
                keep.append(c)
            else:
                ctx.hist("multi_gcc_rejects(outside class)", "1")
        cases = keep
        cdefs, so, p = build(cases)
        if p.returncode:
            raise vlib.BuildError("C02 multi helper: " + p.stderr[-2000:])
    payload = dict(op="multi", prelude=c01.PRELUDE_CDEF, so=so, cases=[
        dict(cdef=cd, T="%s %s" % (c01.kw(c["top"]), c["top"]["tag"]),
             fields=[n for n, b, ct in _int_fields(c["top"])], trials=c["trials"])
        for cd, c in zip(cdefs, cases)])
    out, p = s.run_worker("c02_worker.py", payload, timeout=1500)
    if out is None:
        ctx.violation(cases[0], "C02 worker (multi) failed (crash in bitfield access?): rc=%s %s"
                      % (p.returncode, (p.stderr[-1500:] or p.stdout[-500:])))
        return
    for c, r in zip(cases, out["cases"]):
        fl = _int_fields(c["top"])
        ufree = _union_free(c["top"])
        if r.get("error"):
            # cdef/new refused a declaration gcc accepts: "no declaration rejected" is C01's property; not judged here
            ctx.hist("multi_cffi_rejects", r["error"])
            continue
        if r["size"] != r["csize"]:
            ctx.hist("multi_size_differs(C01)", "1")
            continue
        ctx.hist("multi_fields", min(len(fl), 12))
        ctx.hist("multi_union_free", ufree)
        for t, tr in zip(c["trials"], r["trials"]):
            ctx.count()
            wi, v = t["wi"], int(t["v"])
            name, b, ct = fl[wi]
            one = dict(op="multi", top=c["top"], trials=[t])

            def cval(x, i):
                x = int(x)
                return x - (1 << 64) if (fl[i][2] not in c01.UNSIGNED and x >= 1 << 63) else x
            bad = None
            if not tr["ok"]:
                bad = "assigning in-range %d to bit-field %s (%s :%d) raised %s" % (v, name, ct, b, tr["exc"])
            elif tr["after"] != tr["cafter"]:
                bad = ("write of %d to %s (%s :%d): object bytes after cffi's write %s, after gcc's write %s (before %s)"
                       % (v, name, ct, b, tr["after"], tr["cafter"], tr["before"]))
            else:
                for i, (n2, b2, ct2) in enumerate(fl):
                    if tr["reads_after"][i] != str(cval(tr["creads_after"][i], i)):
                        bad = "after writing %s, field %s (%s :%d): cffi reads %s, C reads %d" % (
                            name, n2, ct2, b2, tr["reads_after"][i], cval(tr["creads_after"][i], i))
                        break
                    if ufree and i != wi and tr["reads_after"][i] != tr["reads_before"][i]:
                        bad = "writing bit-field %s changed field %s of the same union-free struct: %s -> %s" % (
                            name, n2, tr["reads_before"][i], tr["reads_after"][i])
                        break
                    if i == wi and tr["reads_after"][i] != str(-1 if (b == 1 and ct not in c01.UNSIGNED and v == 1) else v):
                        bad = "wrote %d to %s (%s :%d), read back %s" % (v, name, ct, b, tr["reads_after"][i])
                        break
            if bad:
                ctx.violation(one, bad, finding_key(one))
            else:
                ctx.nontrivial(("multi", c["top"]["tag"], wi, t["v"], t["seed"] % 4))
    ctx.extra["multi_structs"] = len(cases)


def struct_decl(k, t, w, sh):
    padt = "unsigned char" if t == "_Bool" else t
    pad = "%s pad:%d; " % (padt, sh) if sh else ""
    return "struct s_%d { %s%s x:%d; };" % (k, pad, t, w)


def build_helper(ctx, pls):
    s = ctx.scratch()
    tag = "c02h%d" % (getattr(ctx, "_c02_n", 0))
    ctx._c02_n = getattr(ctx, "_c02_n", 0) + 1
    decls = [struct_decl(k, t, w, sh) for k, (t, w, sh) in enumerate(pls)]
    src = ["#include <stddef.h>", "\n".join(decls),
           "unsigned long long bf_get(int k, void *p) { switch (k) {"]
    for k, (t, w, sh) in enumerate(pls):
        src.append(" case %d: return (unsigned long long)(long long)((struct s_%d *)p)->x;" % (k, k))
    src.append(" } return 0; }\nvoid bf_set(int k, void *p, unsigned long long v) { switch (k) {")
    for k, (t, w, sh) in enumerate(pls):
        src.append(" case %d: ((struct s_%d *)p)->x = (%s)v; break;" % (k, k, t))
    src.append(" } }\nint bf_sizeof(int k) { switch (k) {")
    for k in range(len(pls)):
        src.append(" case %d: return (int)sizeof(struct s_%d);" % (k, k))
    src.append(" } return -1; }")
    cfile = os.path.join(s.work, tag + ".c")
    with open(cfile, "w") as f:
        f.write("\n".join(src) + "\n")
    so = os.path.join(s.work, "lib%s.so" % tag)
    p = subprocess.run(["gcc", "-w", "-O0", "-fPIC", "-shared", "-o", so, cfile], capture_output=True, text=True)
    if p.returncode:
        raise vlib.BuildError("C02 helper: " + p.stderr[-2000:])
    return so, "\n".join(decls)


def finding_key(case):
    return None      # the width-64 defect is fixed in /repo (6dbf57f); a recurrence must alarm


def evaluate(ctx, cases):
    multi = [c for c in cases if c["op"] == "multi"]
    cases = [c for c in cases if c["op"] != "multi"]
    if multi:
        evaluate_multi(ctx, multi)
    if not cases:
        return
    pls, kof = [], {}
    for c in cases:
        key = (c["type"], c["w"], c["sh"])
        if key not in kof:
            kof[key] = len(pls)
            pls.append(key)
    so, cdef = build_helper(ctx, pls)
    writes = [c for c in cases if c["op"] == "write"]
    reads = [c for c in cases if c["op"] == "read"]
    payload = dict(cdef=cdef, so=so, placements=[dict(k=k) for k in range(len(pls))],
                   writes=[dict(k=kof[(c["type"], c["w"], c["sh"])], v=c["v"], seed=c["seed"]) for c in writes],
                   reads=[dict(k=kof[(c["type"], c["w"], c["sh"])], seed=c["seed"]) for c in reads])
    out, p = ctx.scratch().run_worker("c02_worker.py", payload, timeout=1500)
    if out is None:
        ctx.violation(cases[0], "C02 worker failed (crash in bitfield access?): rc=%s %s"
                      % (p.returncode, (p.stderr[-1500:] or p.stdout[-500:])))
        return
    info = {int(k): v for k, v in out["info"].items()}
    signed_of = dict(TYPES)
    # ---- placements: cffi's (size, offset, bitshift, bitsize) designate the bits gcc uses for the field
    okpl = {}
    for k, (t, w, sh) in enumerate(pls):
        i = info[k]
        mask = int.from_bytes(bytes.fromhex(i["mask"]), "little")
        cffi_mask = (((1 << i["bitsize"]) - 1) << i["bitshift"]) << (8 * i["offset"])
        case = dict(op="layout", type=t, w=w, sh=sh)
        okpl[k] = False
        if i["size"] != i["csize"]:
            ctx.violation(case, "sizeof(struct): cffi %d, gcc %d" % (i["size"], i["csize"]), finding_key(case))
        elif i["bitsize"] != w or mask != cffi_mask:
            ctx.violation(case, "field bits: gcc mask %#x, cffi offset=%d bitshift=%d bitsize=%d"
                          % (mask, i["offset"], i["bitshift"], i["bitsize"]), finding_key(case))
        else:
            okpl[k] = True
            ctx.hist("unit_bits", 8 * i["usize"])
    wcoq, wown, rcoq, rown = [], [], [], []
    for c, r in zip(writes, out["writes"]):
        ctx.count()
        k = kof[(c["type"], c["w"], c["sh"])]
        if not okpl[k]:
            continue
        i = info[k]
        t, w = c["type"], c["w"]
        signed = signed_of[t]
        v = int(c["v"])
        lo, hi = frange(signed, w)
        special = signed and w == 1 and v == 1
        accept = lo <= v <= hi or special
        before = int.from_bytes(bytes.fromhex(r["before"]), "little")
        after = int.from_bytes(bytes.fromhex(r["after"]), "little")
        mask = int.from_bytes(bytes.fromhex(i["mask"]), "little")
        ctx.hist("width_class", "full" if w == 8 * i["usize"] else ("1" if w == 1 else "mid"))
        ctx.hist("accepted", r["ok"])
        if v in (lo - 1, lo, hi, hi + 1) or w == 8 * i["usize"] or special:
            ctx.nontrivial((t, w, c["sh"], c["v"]))
        bad = None
        if r["ok"] != accept:
            bad = "assigning %d to '%s x:%d' (shift %d) %s but the field's range is [%d, %d]" % (
                v, t, w, c["sh"], "succeeded" if r["ok"] else "raised " + str(r["exc"]), lo, hi)
        elif r["ok"]:
            want = -1 if special else v
            if r["rb"] != str(want):
                bad = "wrote %d to '%s x:%d' (shift %d), read back %s" % (v, t, w, c["sh"], r["rb"])
            elif (before ^ after) & ~mask:
                bad = "write to '%s x:%d' (shift %d) changed bits outside the field: %s -> %s" % (
                    t, w, c["sh"], r["before"], r["after"])
        else:
            if r["exc"] != "OverflowError":
                bad = "out-of-range %d for '%s x:%d' raised %s, not OverflowError" % (v, t, w, r["exc"])
            elif before != after:
                bad = "rejected write changed memory: %s -> %s" % (r["before"], r["after"])
        if bad is None:
            cread = int(r["cread"])
            if signed and cread >= 1 << 63:
                cread -= 1 << 64
            if r["rb"] != str(cread):
                bad = "'%s x:%d' (shift %d) bytes %s: cffi reads %s, C reads %d" % (t, w, c["sh"], r["after"], r["rb"], cread)
        if bad:
            ctx.violation(c, bad, finding_key(c))
        # model: boundary values for every placement, the rest sampled
        if v in (lo - 1, lo, hi, hi + 1, -1, 1, 2 ** 63, -2 ** 63 - 1) or (c["seed"] % 5 == 0):
            us, off = i["usize"], i["offset"]
            old = (before >> (8 * off)) & ((1 << (8 * us)) - 1)
            new = (after >> (8 * off)) & ((1 << (8 * us)) - 1)
            status = 0 if r["ok"] else {"OverflowError": 1, "TypeError": 2}.get(r["exc"], 50)
            wcoq.append((cpair(cz(us), cbool(signed), cbool(t == "_Bool"), cz(w), cz(i["bitshift"]), cz(v), cz(old)),
                         cpair(cz(status), cz(new))))
            wown.append(c)
    for c, r in zip(reads, out["reads"]):
        ctx.count()
        k = kof[(c["type"], c["w"], c["sh"])]
        if not okpl[k]:
            continue
        i = info[k]
        signed = signed_of[c["type"]]
        cread = int(r["cread"])
        if signed and cread >= 1 << 63:
            cread -= 1 << 64
        if r["val"] != str(cread):
            ctx.violation(c, "'%s x:%d' (shift %d) bytes %s: cffi reads %s, C reads %d" % (
                c["type"], c["w"], c["sh"], r["content"], r["val"], cread), finding_key(c))
            continue
        ctx.nontrivial(("read", c["type"], c["w"], c["sh"], r["content"]))
        us, off = i["usize"], i["offset"]
        unit = (int.from_bytes(bytes.fromhex(r["content"]), "little") >> (8 * off)) & ((1 << (8 * us)) - 1)
        rcoq.append((cpair(cz(us), cbool(signed), cbool(c["type"] == "_Bool"), cz(c["w"]), cz(i["bitshift"]), cz(unit)),
                     cpair(cz(0), cz(int(r["val"])))))
        rown.append(c)
    for c in cases[:3] + cases[-3:]:
        ctx.sample(c)
    ctx.extra["placements"] = len(pls)
    ctx.extra["model_evaluations"] = dict(write=len(wcoq), read=len(rcoq))
    from concurrent.futures import ThreadPoolExecutor
    jobs = [("C02.Model.bf_write vs convert_from_object_bitfield",
             "fun c => match c with (sz, sg, bl, w, sh, v, old) => write_obs sz sg bl w sh v old end", wcoq, wown),
            ("C02.Model.bf_read vs convert_to_object_bitfield",
             "fun c => match c with (sz, sg, bl, w, sh, old) => read_obs sz sg bl w sh old end", rcoq, rown)]

    def ev(j):
        return vlib.coq_mismatches(["C03.Mem", "C03.Store", "C02.Model"], j[1], "pair_eqb Z.eqb Z.eqb", j[2],
                                   shard=600, jobs=6, prelude="Open Scope Z_scope.")
    with ThreadPoolExecutor(max_workers=2) as ex:
        results = list(ex.map(ev, jobs))
    for (corr, _f, coqcases, owners), (bad, outs, err) in zip(jobs, results):
        if err:
            ctx.obligation_broken("C02 model evaluation: " + corr, err)
            continue
        for i in bad:
            ctx.mismatch(owners[i], "model gives %s, implementation %s on input %s"
                         % (outs.get(i), coqcases[i][1], coqcases[i][0]), corr)


def run(ctx):
    ctx.cov["rule"] = ("cases = (integer type, width, shift, operation, value/unit contents) on real structs "
                       "`struct { T pad:shift; T x:width; }`; types: signed/unsigned char, short, int, long, long long, "
                       "_Bool; widths 1..8*sizeof (all), shifts: all in thorough, {0, max, max-1, 1, random} in quick; "
                       "write values: fmin-2..fmin+1, -2..2, fmax-1..fmax+2, +-2^63, +-2^64, +-2^100, 2^(w-1), 2^w-1, 2^w, "
                       "random in/out of range, over zero/all-ones/random unit contents; reads of random contents vs "
                       "the value a gcc-compiled accessor reads; which bits belong to the field is taken from gcc "
                       "(all-ones store into a zeroed struct). Non-trivial = value at fmin-1/fmin/fmax/fmax+1, full-width "
                       "field, the signed 1-bit exception, or a read of distinct contents. Stream 'multi': random "
                       "aggregates of C01's generator (pack 0, no zero-size aggregate) with >= 2 named bit-fields "
                       "among their flattened integer members; per struct several (bit-field, in-range value, "
                       "zero/ones/random content) writes; judged against gcc (same write replayed, all fields "
                       "re-read) and, in union-free structs, 'every other field unchanged'.")
    ctx.assumptions += [
        "hand-written model C02/Model.v of convert_to_object_bitfield / convert_from_object_bitfield; tied to the "
        "code by this run's differential test and by the regenerated expressions of C02/Gen.v",
        "C02/Gen.v regenerated by tools/props/c02_regen.py + c03_cexpr.py (trusted translator); C03/CExpr.v semantics",
        "gcc as the oracle for which bits a bitfield occupies and for the value C reads; x86-64 little endian; "
        "gcc treats plain short/int/long/long long bitfields as signed",
        "bit position/width (cf_bitshift/cf_bitsize) come from cffi's layout (property C01); every placement used is "
        "first checked against gcc's mask; C01's theorems C01_fields_within_object / C01_fields_disjoint discharge "
        "`placement` and disjointness for layouts of C01's model (C02_layout_fields_disjoint)",
        "multi stream: structs whose cffi and gcc sizes differ or that cdef rejects are left to C01 (counted in "
        "the histograms multi_size_differs(C01) / multi_cffi_rejects)"]
    evaluate(ctx, generate(ctx))


MANIFEST = dict(
    technique="Coq proof (Z.testbit extensionality, explicit C undefined behaviour) for all unit sizes, widths, shifts, "
              "unit contents and Python ints; absolute-bit frame over the whole object composed with C01's layout "
              "theorems + regenerated mask/shift expressions + differential correspondence on real structs against gcc "
              "(single-field placements and multi-field random aggregates)",
    text="Proof: for every storage-unit size 1..8, width 1..8*size, shift with shift+width <= 8*size, every unit content "
         "and every Python int v, the model of convert_from_object_bitfield evaluates no undefined C operation "
         "(C02_no_ub), accepts iff v is in the field's range, plus 1 for a signed 1-bit field (C02_accept_iff, "
         "C02_bool_field), then reads back v, -1 in that case (C02_roundtrip), changes no bit outside [shift, "
         "shift+width) and no byte of the enclosing object outside the unit (C02_isolated, C02_isolated_object), rejects "
         "with OverflowError leaving memory unchanged (C02_reject_pure), and the read equals the two's-complement value "
         "of those bits (C02_reads_like_C). Isolation between fields: seen on the whole object as one little-endian "
         "number, a read is the bits [8*off+sh, +w) (C02_read_abs) and a write changes no other bit of the object "
         "(C02_write_frame_abs); hence writing a bit-field never changes what is read through another bit-field with a "
         "disjoint absolute range, even through storage units of different type and offset that overlap, e.g. "
         "`char a:3; int b:5` (C02_fields_noninterfere), nor the bytes of a neighbouring plain member "
         "(C02_field_write_keeps_bytes). C02_layout_fields_disjoint composes this with C01_fields_within_object and "
         "C01_fields_disjoint: for any two distinct entries of the field table C01's layout model emits for a "
         "union-free struct of its class, the `placement` and in-bounds premises hold and writing one bit-field changes "
         "no other field. The mask/shift/range expressions, the full-width guard and the value conversion are "
         "regenerated from the source into C02/Gen.v and proved equal to the model (C02_gen_read_refines, "
         "C02_gen_write_refines); the control skeleton (C02/Interp.v) and the raw memory readers/writers (C03/Mem.v) are "
         "hand-written. Correspondence on every run: real structs `struct { T pad:sh; T x:w; }` over (type, width, "
         "shift) placements x boundary/random values against gcc and the Coq model; and the 'multi' stream: C01's "
         "random aggregates with >= 2 bit-fields — one bit-field written through cffi, every integer field re-read by "
         "cffi and by a gcc accessor, the same write replayed by gcc on the same bytes (whole objects compared), and "
         "in union-free structs every other field unchanged.",
    note="Trusted: Coq kernel; hand model C02/Model.v (differential tie + regenerated expressions); translator; gcc as "
         "oracle for bit positions and C reads. C02_layout_fields_disjoint is about C01's hand model of the layout "
         "function (tied to the C code by C01's correspondence and here by the 'multi' stream), and quantifies over "
         "either signedness for each field because C01 abstracts integer types as (size, alignment). "
         "convert_field_from_object / the cdata_getattro dispatch (offset + bitshift >= 0 test) are not modelled: "
         "correspondence only. Unit sizes 3, 5, 6, 7 are in the quantified superset. Theorems closed under the global "
         "context.",
    design_ref="DESIGN.md §4 C02")
