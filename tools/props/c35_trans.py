"""Typed Python-AST -> Gallina translator for the small pure-Python mechanisms of C35 and C32
(extends tools/lib/py2coq.py; fail closed: anything outside the subset raises Untranslatable).

Subset
  expressions  str/int/bool/None constants, names, x[n:], d[k] (KeyError made explicit), str methods
               split() / split(c, 1) / startswith(lit), `c in x`, `k in d`, len, isinstance, tuple(list),
               (a, None) tuples, dict literals with constant keys, list comprehensions with filters,
               'fmt' % args with %d %s, sorted(d.keys()), and/or/not, integer comparisons
  statements   assignment, d[k] = v, d[k].extend(v), f.write(e), if/elif/else (isinstance on a universal
               value refines its type in the branch), for over a list / d.items(), return, raise,
               calls to other translated functions (which may be exception-valued and may mutate one
               argument)
Python exceptions are values: a translated function returns `res T` (Ok | Err exc) unless it is marked
pure.  Statements are translated in continuation style, so `if` without `else` duplicates the (small)
tail instead of joining states.
"""
import ast
import re

from lib import py2coq
from lib.py2coq import Untranslatable, strlit

STR, INT, BOOL, NONE = "str", "int", "bool", "none"
FLAG, CFGVAL, CFG = "flag", "cfgval", "cfg"
PYVAL, PYDICT, BUF, BYTES = "pyval", "pydict", "buf", "bytes"


def lit(s):
    """string literal as a list of code points, with the text as a comment when that is harmless"""
    if s and re.match(r"^[A-Za-z0-9_=.,:;%+\-]+$", s):
        return "%s (* %s *)" % (strlit(s), s)
    return strlit(s)


def LIST(t):
    return ("list", t)


def PAIR(a, b):
    return ("pair", a, b)


def gtype(t):
    if isinstance(t, tuple):
        if t[0] == "list":
            return "(list %s)" % gtype(t[1])
        if t[0] == "pair":
            return "(%s * %s)" % (gtype(t[1]), gtype(t[2]))
    return {STR: "str", INT: "Z", BOOL: "bool", FLAG: "flag", CFGVAL: "cfgval", CFG: "cfg",
            PYVAL: "pyval", PYDICT: "(list (str * pyval))", BUF: "str", BYTES: "(list N)"}[t]


class Fn:
    """signature of a translated (or model-supplied) function"""

    def __init__(self, gname, params, ret, monadic=True, mutates=None, prefix_args=(), fuel=False):
        self.gname, self.params, self.ret = gname, params, ret
        self.monadic, self.mutates, self.prefix_args = monadic, mutates, tuple(prefix_args)
        self.fuel = fuel          # takes a leading `fuel : nat` argument (recursion on nested values)


EXCEPTIONS = {"TypeError", "KeyError", "ValueError", "PkgConfigError"}
RESERVED = {"in", "as", "at", "end", "fun", "let", "match", "if", "then", "else", "return", "using",
            "with", "fix", "cofix", "forall", "exists", "Type", "Prop", "Set", "where", "for", "bind",
            "Ok", "Err", "str", "map", "filter", "length", "fuel"}


class Trans(py2coq.Expr):
    def __init__(self, functions=None, globals_=None):
        super().__init__()
        self.functions = dict(functions or {})       # python name -> Fn
        self.globals = dict(globals_ or {})          # python name -> (gallina, type)  or ('class', x)
        self.tmp = 0
        self.pure = False
        self.in_loop = 0
        self.ret = None
        self.mut_param = None

    # ------------------------------------------------------------------ helpers
    def var(self, name):
        if not re.match(r"^[A-Za-z_][A-Za-z0-9_]*$", name) or name == "_":
            raise Untranslatable("identifier " + name)
        return name + "_" if name in RESERVED else name

    def fresh(self):
        self.tmp += 1
        return "tmp%d" % self.tmp

    def coerce(self, text, ty, want):
        if ty == want or (ty == BUF and want == STR) or (ty == STR and want == BUF):
            return text
        if ty == STR and want == PYVAL:
            return "(PStr %s)" % text
        if ty == STR and want == FLAG:
            return "(FStr %s)" % text
        if ty == LIST(STR) and want == LIST(FLAG):
            return "(map FStr %s)" % text
        if ty == LIST(FLAG) and want == CFGVAL:
            return "(VL %s)" % text
        if ty == LIST(STR) and want == CFGVAL:
            return "(VL (map FStr %s))" % text
        raise Untranslatable("cannot use %r where %r is expected" % (ty, want))

    def wrap(self, pre, text):
        for v, m in reversed(pre):
            text = "bind %s (fun %s =>\n%s)" % (m, v, text)
        return text

    def hoist(self, pre, mtext):
        if pre is None:
            raise Untranslatable("exception-valued subexpression in a context evaluated conditionally")
        if self.pure:
            raise Untranslatable("exception-valued expression in a function declared pure")
        v = self.fresh()
        pre.append((v, mtext))
        return v

    def const_char(self, node):
        if isinstance(node, ast.Constant) and isinstance(node.value, str) and len(node.value) == 1:
            return ord(node.value)
        raise Untranslatable("a one-character string constant is required here")

    # ------------------------------------------------------------------ expressions
    def ex(self, n, env, pre):
        """-> (gallina text, type).  pre: list collecting hoisted exception-valued bindings (or None)."""
        if isinstance(n, ast.Constant):
            v = n.value
            if isinstance(v, bool):
                return ("true" if v else "false"), BOOL
            if isinstance(v, int):
                return "(%d)%%Z" % v, INT
            if isinstance(v, str):
                return lit(v), STR
            if v is None:
                return "None", NONE
            raise Untranslatable("constant %r" % (v,))
        if isinstance(n, ast.Name):
            if n.id in env:
                return self.var(n.id), env[n.id]
            if n.id in self.globals and self.globals[n.id][0] != "class":
                return self.globals[n.id]
            raise Untranslatable("unknown name " + n.id)
        if isinstance(n, ast.Subscript):
            return self.subscript(n, env, pre)
        if isinstance(n, ast.Call):
            return self.callx(n, env, pre)
        if isinstance(n, ast.Tuple):
            elts = []
            for e in n.elts:
                t, ty = self.ex(e, env, pre)
                if ty == STR:
                    elts.append("Some %s" % t)
                elif ty == NONE:
                    elts.append("None")
                else:
                    raise Untranslatable("tuple element of type %r" % (ty,))
            return "(FTuple [%s])" % "; ".join(elts), FLAG
        if isinstance(n, ast.ListComp):
            return self.listcomp(n, env)
        if isinstance(n, ast.List):
            elts = []
            for e in n.elts:
                t, ty = self.ex(e, env, pre)
                if ty != STR:
                    raise Untranslatable("list literal element of type %r" % (ty,))
                elts.append(t)
            return ("[%s]" % "; ".join(elts) if elts else "(@nil str)"), LIST(STR)
        if isinstance(n, ast.BinOp) and isinstance(n.op, ast.BitAnd):
            a, ta = self.ex(n.left, env, pre)
            b, tb = self.ex(n.right, env, pre)
            if ta == tb == INT:
                return "(Z.land %s %s)" % (a, b), INT
            raise Untranslatable("& on %r, %r" % (ta, tb))
        if isinstance(n, ast.Dict):
            items = []
            for k, v in zip(n.keys, n.values):
                if not (isinstance(k, ast.Constant) and isinstance(k.value, str)):
                    raise Untranslatable("dict literal key")
                t, ty = self.ex(v, env, pre)
                items.append("(%s, %s)" % (lit(k.value), self.coerce(t, ty, CFGVAL)))
            if not items:
                return "(@nil (str * cfgval))", CFG
            return "[%s]" % ";\n   ".join(items), CFG
        if isinstance(n, ast.BinOp) and isinstance(n.op, ast.Mod) and isinstance(n.left, ast.Constant) \
                and isinstance(n.left.value, str):
            return self.format(n, env, pre)
        if isinstance(n, ast.BinOp) and isinstance(n.op, ast.Add):
            a, ta = self.ex(n.left, env, pre)
            b, tb = self.ex(n.right, env, pre)
            if ta == tb and (ta == STR or (isinstance(ta, tuple) and ta[0] == "list")):
                return "(%s ++ %s)" % (a, b), ta
            if ta == tb == INT:
                return "(Z.add %s %s)" % (a, b), INT
            raise Untranslatable("+ on %r, %r" % (ta, tb))
        if isinstance(n, (ast.BoolOp, ast.Compare)) or (isinstance(n, ast.UnaryOp) and isinstance(n.op, ast.Not)):
            return self.bexp(n, env, pre), BOOL
        raise Untranslatable("expression " + ast.dump(n)[:160])

    def subscript(self, n, env, pre):
        base, tb = self.ex(n.value, env, pre)
        sl = n.slice
        if isinstance(sl, ast.Slice) and sl.step is not None:
            ok = (sl.upper is None and isinstance(sl.step, ast.Constant) and sl.step.value == 2
                  and isinstance(sl.lower, ast.Constant) and sl.lower.value in (0, 1)
                  and not isinstance(sl.lower.value, bool) and not isinstance(sl.step.value, bool))
            if not ok or tb not in (STR, BYTES):
                raise Untranslatable("only x[0::2] / x[1::2] step slices")
            return "(py_slice_step2 %d %s)" % (sl.lower.value, base), tb
        if isinstance(sl, ast.Slice) and sl.lower is None and sl.step is None and isinstance(sl.upper, ast.UnaryOp) \
                and isinstance(sl.upper.op, ast.USub) and isinstance(sl.upper.operand, ast.Constant) \
                and type(sl.upper.operand.value) is int and sl.upper.operand.value > 0 and tb == STR:
            return "(py_slice_to_neg %d %s)" % (sl.upper.operand.value, base), STR     # C32/PyStr.v
        if isinstance(sl, ast.Slice):
            if sl.upper is not None or sl.step is not None or not (
                    isinstance(sl.lower, ast.Constant) and isinstance(sl.lower.value, int)
                    and not isinstance(sl.lower.value, bool) and sl.lower.value >= 0):
                raise Untranslatable("only x[n:] slices with a constant n >= 0")
            if tb != STR:
                raise Untranslatable("slice of %r" % (tb,))
            return "(py_slice_from %d %s)" % (sl.lower.value, base), STR
        if isinstance(sl, ast.Constant) and type(sl.value) is int and sl.value == 0 and tb == LIST(STR) \
                and isinstance(n.value, ast.Call) and isinstance(n.value.func, ast.Attribute) and n.value.func.attr == "split":
            return "(py_item0 %s)" % base, STR      # split(...)[0]: a split is never empty (C32/PyStr.v)
        k, tk = self.ex(sl, env, pre)
        if tb == CFG and tk == STR:
            return self.hoist(pre, "(dict_get %s %s)" % (base, k)), CFGVAL
        if tb == PYDICT and tk == STR:
            return self.hoist(pre, "(pd_get %s %s)" % (base, k)), PYVAL
        raise Untranslatable("subscript %r[%r]" % (tb, tk))

    def callx(self, n, env, pre):
        if n.keywords:
            raise Untranslatable("keyword arguments")
        f = n.func
        if isinstance(f, ast.Attribute) and isinstance(f.value, ast.Name) and f.value.id not in env \
                and (f.value.id, f.attr) == ("cStringIO", "StringIO") and not n.args:
            return "(@nil N)", BUF
        if isinstance(f, ast.Attribute):
            obj, to = self.ex(f.value, env, pre)
            m = f.attr
            if to == STR and m == "split" and not n.args:
                return "(py_split %s)" % obj, LIST(STR)
            if to == STR and m == "split" and len(n.args) == 2 and isinstance(n.args[1], ast.Constant) \
                    and n.args[1].value == 1 and not isinstance(n.args[1].value, bool):
                return "(py_split1 %d %s)" % (self.const_char(n.args[0]), obj), LIST(STR)
            if to == STR and m == "startswith" and len(n.args) == 1 and isinstance(n.args[0], ast.Constant) \
                    and isinstance(n.args[0].value, str):
                return "(py_startswith %s %s)" % (obj, lit(n.args[0].value)), BOOL
            if to == STR and m == "endswith" and len(n.args) == 1 and isinstance(n.args[0], ast.Constant) \
                    and isinstance(n.args[0].value, str):
                return "(py_endswith %s %s)" % (obj, lit(n.args[0].value)), BOOL     # C32/PyStr.v
            if to == BUF and m == "getvalue" and not n.args:
                return obj, STR
            if to == STR and m == "join" and len(n.args) == 1 and isinstance(f.value, ast.Constant):
                a, ta = self.ex(n.args[0], env, pre)
                if ta != LIST(STR):
                    raise Untranslatable("join of %r" % (ta,))
                return "(py_join %s %s)" % (obj, a), STR
            if to == STR and m == "encode" and len(n.args) == 1 and isinstance(n.args[0], ast.Constant) \
                    and n.args[0].value == "utf-8":
                return self.hoist(pre, "(py_encode_utf8 %s)" % obj), BYTES
            if to == STR and m in ("lstrip", "rstrip") and len(n.args) == 1 \
                    and isinstance(n.args[0], ast.Constant) and isinstance(n.args[0].value, str):
                return "(py_%s %s %s)" % (m, obj, lit(n.args[0].value)), STR
            if to == PYDICT and m == "keys" and not n.args:
                return "(pd_keys %s)" % obj, LIST(STR)
            if to == CFG and m == "items" and not n.args:
                return "(dict_items %s)" % obj, LIST(PAIR(STR, CFGVAL))
            raise Untranslatable("method %s on %r" % (m, to))
        if not isinstance(f, ast.Name):
            raise Untranslatable("call of a non-name")
        name = f.id
        if name in env:
            raise Untranslatable("call of a local variable")
        if name == "len" and len(n.args) == 1:
            a, ta = self.ex(n.args[0], env, pre)
            if ta in (STR, BUF) or (isinstance(ta, tuple) and ta[0] == "list") or ta == PYDICT:
                return "(py_len %s)" % a, INT
            raise Untranslatable("len of %r" % (ta,))
        if name == "tuple" and len(n.args) == 1:
            a, ta = self.ex(n.args[0], env, pre)
            if ta == LIST(STR):
                return "(tuple_of_strs %s)" % a, FLAG
            raise Untranslatable("tuple() of %r" % (ta,))
        if name == "sorted" and len(n.args) == 1:
            a, ta = self.ex(n.args[0], env, pre)
            if ta == LIST(STR):
                return "(py_sorted_str %s)" % a, LIST(STR)
            raise Untranslatable("sorted() of %r" % (ta,))
        if name == "hex" and len(n.args) == 1:
            a, ta = self.ex(n.args[0], env, pre)
            if ta != INT:
                raise Untranslatable("hex of %r" % (ta,))
            return "(py_hex %s)" % a, STR
        if name == "isinstance":
            return self.bexp(n, env, pre), BOOL
        if name in self.functions:
            fn = self.functions[name]
            if fn.mutates is not None:
                raise Untranslatable("call of mutating function %s in expression position" % name)
            text = self.fncall(fn, n.args, env, pre)
            if fn.monadic:
                return self.hoist(pre, text), fn.ret
            return text, fn.ret
        raise Untranslatable("call to " + name)

    def fncall(self, fn, args, env, pre):
        if len(args) != len(fn.params):
            raise Untranslatable("arity of call to " + fn.gname)
        out = [fn.gname] + list(fn.prefix_args)
        if fn.fuel:
            out.append("fuel")
        for a, want in zip(args, fn.params):
            t, ty = self.ex(a, env, pre)
            out.append(self.coerce(t, ty, want))
        return "(" + " ".join(out) + ")"

    def listcomp(self, n, env):
        if len(n.generators) != 1:
            raise Untranslatable("nested comprehension")
        g = n.generators[0]
        if g.is_async or not isinstance(g.target, ast.Name):
            raise Untranslatable("comprehension target")
        it, ti = self.ex(g.iter, env, None)
        if not (isinstance(ti, tuple) and ti[0] == "list"):
            raise Untranslatable("comprehension over %r" % (ti,))
        x = self.var(g.target.id)
        env2 = dict(env)
        env2[g.target.id] = ti[1]
        conds = [self.bexp(c, env2, None) for c in g.ifs]
        cond = "true"
        if conds:
            cond = conds[0]
            for c in conds[1:]:
                cond = "(andb %s %s)" % (cond, c)
        e, te = self.ex(n.elt, env2, None)
        return "(py_listcomp (fun %s => %s) (fun %s => %s) %s)" % (x, e, x, cond, it), LIST(te)

    def format(self, n, env, pre):
        fmt = n.left.value
        args = list(n.right.elts) if isinstance(n.right, ast.Tuple) else [n.right]
        parts, pos = [], 0
        for m in re.finditer(r"%(.)", fmt):
            if m.start() > pos:
                parts.append(strlit(fmt[pos:m.start()]))
            pos = m.end()
            c = m.group(1)
            if c == "%":
                parts.append(strlit("%"))
                continue
            if not args:
                raise Untranslatable("format arity")
            t, ty = self.ex(args.pop(0), env, pre)
            if c == "d" and ty == INT:
                parts.append("(py_dec %s)" % t)
            elif c == "s" and ty == STR:
                parts.append(t)
            else:
                raise Untranslatable("format %%%s with %r" % (c, ty))
        if fmt.endswith("%") and not fmt.endswith("%%"):
            raise Untranslatable("format string")
        if pos < len(fmt):
            parts.append(strlit(fmt[pos:]))
        if args:
            raise Untranslatable("format arity")
        if not parts:
            return "(@nil N)", STR
        return "(" + " ++ ".join(parts) + ")", STR

    def bexp(self, n, env, pre):
        if isinstance(n, ast.BoolOp):
            # operands after the first are evaluated conditionally: nothing may be hoisted out of them
            op = "andb" if isinstance(n.op, ast.And) else "orb"
            out = self.bexp(n.values[0], env, pre)
            for v in n.values[1:]:
                out = "(%s %s %s)" % (op, out, self.bexp(v, env, None))
            return out
        if isinstance(n, ast.UnaryOp) and isinstance(n.op, ast.Not):
            return "(negb %s)" % self.bexp(n.operand, env, pre)
        if isinstance(n, ast.Compare):
            if len(n.ops) != 1:
                raise Untranslatable("chained comparison")
            op, l, r = n.ops[0], n.left, n.comparators[0]
            if isinstance(op, (ast.In, ast.NotIn)):
                rt, rty = self.ex(r, env, pre)
                if rty == STR:
                    t = "(py_contains_char %d %s)" % (self.const_char(l), rt)
                elif rty == CFG:
                    lt, lty = self.ex(l, env, pre)
                    if lty != STR:
                        raise Untranslatable("dict membership of %r" % (lty,))
                    t = "(dict_in %s %s)" % (lt, rt)
                else:
                    raise Untranslatable("membership in %r" % (rty,))
                return t if isinstance(op, ast.In) else "(negb %s)" % t
            lt, lty = self.ex(l, env, pre)
            rt, rty = self.ex(r, env, pre)
            if lty == rty == INT:
                if type(op) in py2coq.CMPOPS:
                    return "(%s %s %s)" % (py2coq.CMPOPS[type(op)], lt, rt)
                if isinstance(op, ast.NotEq):
                    return "(negb (Z.eqb %s %s))" % (lt, rt)
            raise Untranslatable("comparison %s on %r, %r" % (type(op).__name__, lty, rty))
        if isinstance(n, ast.Call) and isinstance(n.func, ast.Name) and n.func.id == "isinstance" \
                and len(n.args) == 2 and not n.keywords:
            t, ty = self.ex(n.args[0], env, pre)
            cls = self.classof(n.args[1])
            if ty == CFGVAL and cls == "list":
                return "(is_list %s)" % t
            raise Untranslatable("isinstance(%r, %s)" % (ty, cls))
        t, ty = self.ex(n, env, pre)
        if ty != BOOL:
            raise Untranslatable("truth value of %r" % (ty,))
        return t

    def classof(self, node):
        """canonical name of the class (set) tested by isinstance"""
        if isinstance(node, ast.Tuple):
            return "|".join(sorted(self.classof(e) for e in node.elts))
        if isinstance(node, ast.Name):
            if node.id in self.globals and self.globals[node.id][0] == "class":
                return self.globals[node.id][1]
            if node.id in ("str", "dict", "list", "tuple", "int"):
                return node.id
        raise Untranslatable("class expression " + ast.dump(node)[:80])

    # ------------------------------------------------------------------ statements
    REFINE = {"str": ("py_as_str", STR), "dict": ("py_as_dict", PYDICT),
              "list|tuple": ("py_as_seq", LIST(PYVAL)), "int": ("py_as_int", INT)}

    def block(self, stmts, env, k):
        if not stmts:
            if k is None:
                raise Untranslatable("control reaches the end of a function body")
            return k(env)
        s, rest = stmts[0], stmts[1:]

        def cont(env2):
            return self.block(rest, env2, k)

        if isinstance(s, ast.Expr) and isinstance(s.value, ast.Constant) and isinstance(s.value.value, str):
            return cont(env)
        if isinstance(s, ast.Pass):
            return cont(env)
        if isinstance(s, ast.Return):
            if self.in_loop:
                raise Untranslatable("return inside a loop")
            if rest:
                raise Untranslatable("statements after return")
            if s.value is None:
                raise Untranslatable("bare return")
            if self.mut_param is not None and not (isinstance(s.value, ast.Name) and s.value.id == self.mut_param):
                raise Untranslatable("a function that mutates %s must return it (or nothing)" % self.mut_param)
            pre = []
            t, ty = self.ex(s.value, env, pre)
            t = self.coerce(t, ty, self.ret)
            return self.wrap(pre, t if self.pure else "Ok %s" % t)
        if isinstance(s, ast.Raise):
            if self.pure:
                raise Untranslatable("raise in a function declared pure")
            e = s.exc.func if isinstance(s.exc, ast.Call) else s.exc
            if not (isinstance(e, ast.Name) and e.id in EXCEPTIONS) or s.cause is not None:
                raise Untranslatable("raise of an unknown exception")
            return "Err %s" % e.id
        if isinstance(s, ast.Assign):
            if len(s.targets) != 1:
                raise Untranslatable("multiple assignment")
            tg = s.targets[0]
            if isinstance(tg, ast.Name):
                if self.opaque_dead(s, rest):
                    return cont(env)
                pre = []
                t, ty = self.ex(s.value, env, pre)
                if ty == NONE:
                    raise Untranslatable("None-valued variable")
                env2 = dict(env)
                env2[tg.id] = ty
                return self.wrap(pre, "let %s := %s in\n%s" % (self.var(tg.id), t, cont(env2)))
            if isinstance(tg, ast.Subscript) and isinstance(tg.value, ast.Name) and env.get(tg.value.id) == CFG:
                pre = []
                d = self.var(tg.value.id)
                kx, tk = self.ex(tg.slice, env, pre)
                v, tv = self.ex(s.value, env, pre)
                if tk != STR:
                    raise Untranslatable("dict key of %r" % (tk,))
                return self.wrap(pre, "let %s := dict_set %s %s %s in\n%s" % (
                    d, d, kx, self.coerce(v, tv, CFGVAL), cont(env)))
            raise Untranslatable("assignment target")
        if isinstance(s, ast.Expr) and isinstance(s.value, ast.Call):
            return self.call_stmt(s.value, env, cont)
        if isinstance(s, ast.If):
            return self.if_stmt(s, rest, env, k)
        if isinstance(s, ast.For):
            return self.for_stmt(s, env, cont)
        raise Untranslatable("statement " + type(s).__name__)

    def opaque_dead(self, s, rest):
        """`name = sys.getfilesystemencoding()` whose value is never used: skipped"""
        v = s.value
        if not (isinstance(v, ast.Call) and not v.args and not v.keywords):
            return False
        try:
            d = self.dotted(v.func)
        except Untranslatable:
            return False
        if d != "sys.getfilesystemencoding":
            return False
        name = s.targets[0].id
        for r in rest:
            for sub in ast.walk(r):
                if isinstance(sub, ast.Name) and sub.id == name:
                    raise Untranslatable("value of sys.getfilesystemencoding() is used")
        return True

    def call_stmt(self, c, env, cont):
        f = c.func
        if c.keywords:
            raise Untranslatable("keyword arguments")
        pre = []
        if isinstance(f, ast.Attribute) and f.attr == "extend" and len(c.args) == 1 \
                and isinstance(f.value, ast.Subscript) and isinstance(f.value.value, ast.Name) \
                and env.get(f.value.value.id) == CFG:
            d = self.var(f.value.value.id)
            kx, tk = self.ex(f.value.slice, env, pre)
            if tk != STR:
                raise Untranslatable("dict key of %r" % (tk,))
            old = self.hoist(pre, "(dict_get %s %s)" % (d, kx))
            v, tv = self.ex(c.args[0], env, pre)
            new = self.hoist(pre, "(val_extend %s %s)" % (old, self.coerce(v, tv, CFGVAL)))
            return self.wrap(pre, "let %s := dict_set %s %s %s in\n%s" % (d, d, kx, new, cont(env)))
        if isinstance(f, ast.Attribute) and f.attr == "write" and len(c.args) == 1 \
                and isinstance(f.value, ast.Name) and env.get(f.value.id) == BUF:
            b = self.var(f.value.id)
            v, tv = self.ex(c.args[0], env, pre)
            if tv != STR:
                raise Untranslatable("write of %r" % (tv,))
            return self.wrap(pre, "let %s := %s ++ %s in\n%s" % (b, b, v, cont(env)))
        if isinstance(f, ast.Name) and f.id in self.functions and f.id not in env:
            fn = self.functions[f.id]
            if fn.mutates is None or not fn.monadic:
                raise Untranslatable("result of %s is discarded" % f.id)
            tgt = c.args[fn.mutates] if fn.mutates < len(c.args) else None
            if not isinstance(tgt, ast.Name) or tgt.id not in env:
                raise Untranslatable("mutated argument must be a local variable")
            text = self.fncall(fn, c.args, env, pre)
            return self.wrap(pre, "bind %s (fun %s =>\n%s)" % (text, self.var(tgt.id), cont(env)))
        raise Untranslatable("expression statement " + ast.dump(c)[:120])

    def if_stmt(self, s, rest, env, k):
        t = s.test
        # isinstance(NAME, C) on a universal value: match with refinement of NAME in the branch
        if isinstance(t, ast.Call) and isinstance(t.func, ast.Name) and t.func.id == "isinstance" \
                and len(t.args) == 2 and isinstance(t.args[0], ast.Name) and env.get(t.args[0].id) == PYVAL:
            cls = self.classof(t.args[1])
            if cls not in self.REFINE:
                raise Untranslatable("isinstance class " + cls)
            fn, ty = self.REFINE[cls]
            x = self.var(t.args[0].id)
            env2 = dict(env)
            env2[t.args[0].id] = ty
            a = self.block(list(s.body) + rest, env2, k)
            b = self.block(list(s.orelse) + rest, env, k)
            return "match %s %s with\n| Some %s =>\n%s\n| None =>\n%s\nend" % (fn, x, x, a, b)
        pre = []
        c = self.bexp(t, env, pre)
        a = self.block(list(s.body) + rest, env, k)
        b = self.block(list(s.orelse) + rest, env, k)
        return self.wrap(pre, "if %s\nthen %s\nelse %s" % (c, a, b))

    def mutated(self, stmts, env):
        out = []

        def add(nm):
            if nm in env and nm not in out:
                out.append(nm)
        for s in stmts:
            if isinstance(s, ast.Assign):
                for tg in s.targets:
                    if isinstance(tg, ast.Name):
                        add(tg.id)
                    elif isinstance(tg, ast.Subscript) and isinstance(tg.value, ast.Name):
                        add(tg.value.id)
                    else:
                        raise Untranslatable("assignment target in loop")
            elif isinstance(s, ast.Expr) and isinstance(s.value, ast.Call):
                f = s.value.func
                if isinstance(f, ast.Attribute):
                    base = f.value
                    while isinstance(base, (ast.Subscript, ast.Attribute)):
                        base = base.value
                    if isinstance(base, ast.Name):
                        add(base.id)
                elif isinstance(f, ast.Name) and f.id in self.functions:
                    fn = self.functions[f.id]
                    if fn.mutates is not None and fn.mutates < len(s.value.args) \
                            and isinstance(s.value.args[fn.mutates], ast.Name):
                        add(s.value.args[fn.mutates].id)
            elif isinstance(s, ast.If):
                for nm in self.mutated(s.body, env) + self.mutated(s.orelse, env):
                    add(nm)
            elif isinstance(s, ast.For):
                for nm in self.mutated(s.body, env):
                    add(nm)
            elif isinstance(s, (ast.AugAssign, ast.While, ast.With, ast.Try, ast.Delete, ast.Global,
                                ast.Nonlocal, ast.FunctionDef, ast.ClassDef)):
                raise Untranslatable("statement %s in loop" % type(s).__name__)
        return out

    def for_stmt(self, s, env, cont):
        if s.orelse:
            raise Untranslatable("for-else")
        pre = []
        it, ti = self.ex(s.iter, env, pre)
        if not (isinstance(ti, tuple) and ti[0] == "list"):
            raise Untranslatable("for over %r" % (ti,))
        elt = ti[1]
        env2 = dict(env)
        if isinstance(s.target, ast.Name):
            pat = self.var(s.target.id)
            env2[s.target.id] = elt
        elif isinstance(s.target, ast.Tuple) and isinstance(elt, tuple) and elt[0] == "pair" \
                and len(s.target.elts) == 2 and all(isinstance(e, ast.Name) for e in s.target.elts):
            pat = "'(%s, %s)" % tuple(self.var(e.id) for e in s.target.elts)
            env2[s.target.elts[0].id] = elt[1]
            env2[s.target.elts[1].id] = elt[2]
        else:
            raise Untranslatable("for target")
        for sub in ast.walk(ast.Module(body=list(s.body), type_ignores=[])):
            if isinstance(sub, (ast.Break, ast.Continue, ast.Return)):
                raise Untranslatable("break/continue/return inside a loop")
        state = self.mutated(s.body, env)
        if not state:
            raise Untranslatable("loop without effect on local state")
        names = [self.var(v) for v in state]
        spat = names[0] if len(names) == 1 else "'(%s)" % ", ".join(names)
        sval = names[0] if len(names) == 1 else "(%s)" % ", ".join(names)

        def kbody(env3):
            for v in state:
                if env3.get(v) != env.get(v):
                    raise Untranslatable("loop changes the type of " + v)
            return "Ok %s" % sval
        self.in_loop += 1
        try:
            body = self.block(list(s.body), env2, kbody)
        finally:
            self.in_loop -= 1
        return self.wrap(pre, "bind (py_for (fun %s %s =>\n%s) %s %s) (fun %s =>\n%s)" % (
            spat, pat, body, it, sval, spat, cont(env)))

    # ------------------------------------------------------------------ functions
    def function(self, fdef, sig, pure=False, fuel=False, extra_binders=""):
        """Translate one FunctionDef against its signature `sig` (an Fn). Returns Gallina text."""
        a = fdef.args
        if a.vararg or a.kwarg or a.kwonlyargs or a.posonlyargs or a.defaults or fdef.decorator_list:
            raise Untranslatable("signature of " + fdef.name)
        if len(a.args) != len(sig.params):
            raise Untranslatable("arity of " + fdef.name)
        env = {p.arg: t for p, t in zip(a.args, sig.params)}
        self.pure, self.ret, self.tmp, self.in_loop = pure, sig.ret, 0, 0
        self.mut_param = a.args[sig.mutates].arg if sig.mutates is not None else None
        body = [s for s in fdef.body if not isinstance(s, ast.FunctionDef)]
        endk = None
        if self.mut_param is not None:
            mp = self.mut_param
            for sub in ast.walk(fdef):
                if isinstance(sub, ast.Name) and sub.id == mp and isinstance(sub.ctx, ast.Store):
                    raise Untranslatable("%s rebinds the argument it mutates" % fdef.name)

            def endk(env_end):
                return "Ok %s" % self.var(mp)
        text = self.block(body, env, endk)
        binders = " ".join("(%s : %s)" % (self.var(p.arg), gtype(t)) for p, t in zip(a.args, sig.params))
        rty = gtype(sig.ret) if pure else "res %s" % gtype(sig.ret)
        if fuel:
            return ("Fixpoint %s (fuel : nat) %s%s {struct fuel} : %s :=\nmatch fuel with\n| O => Err OutOfFuel\n"
                    "| S fuel =>\n%s\nend.\n" % (sig.gname, extra_binders, binders, rty, text))
        return "Definition %s %s%s : %s :=\n%s.\n" % (sig.gname, extra_binders, binders, rty, text)


def nested_functions(fdef):
    return {s.name: s for s in fdef.body if isinstance(s, ast.FunctionDef)}


def free_names(fdef):
    """names read in fdef that are neither parameters nor assigned locally (fail-closed closure check)"""
    bound = {a.arg for a in fdef.args.args}
    for sub in ast.walk(fdef):
        if isinstance(sub, ast.Name) and isinstance(sub.ctx, ast.Store):
            bound.add(sub.id)
        if isinstance(sub, ast.FunctionDef) and sub is not fdef:
            bound.add(sub.name)
        if isinstance(sub, ast.comprehension) and isinstance(sub.target, ast.Name):
            bound.add(sub.target.id)
    return {sub.id for sub in ast.walk(fdef)
            if isinstance(sub, ast.Name) and isinstance(sub.ctx, ast.Load) and sub.id not in bound}
