#!/venv/bin/python
"""Regenerate /verif/MANIFEST.json from the MANIFEST dict of every tools/props/cNN.py."""
import importlib
import json
import os
import sys

ROOT = os.path.dirname(os.path.dirname(os.path.abspath(__file__)))
sys.path.insert(0, os.path.join(ROOT, "tools"))
PENDING = "check not built yet in this development (see DESIGN.md build order); nothing is claimed for it"


def main():
    props = [json.loads(l) for l in open(os.path.join(ROOT, "properties.jsonl"))]
    checks, na = [], []
    na_reasons = {}
    p = os.path.join(ROOT, "not_applicable.json")
    if os.path.exists(p):
        na_reasons = json.load(open(p))
    for pr in props:
        pid = pr["id"]
        modpath = os.path.join(ROOT, "tools", "props", pid.lower() + ".py")
        if pid in na_reasons or not os.path.exists(modpath):
            na.append(dict(property_id=pid, reason=na_reasons.get(pid, PENDING)))
            continue
        try:
            mod = importlib.import_module("props." + pid.lower())
            m = getattr(mod, "MANIFEST", None)
        except Exception as e:      # a module still being written
            print("  %s: module does not import (%s) -> not claimed" % (pid, e))
            m = None
        if m is None:
            na.append(dict(property_id=pid, reason=PENDING))
            continue
        checks.append(dict(
            property_id=pid,
            quick_cmd="./check %s --tier quick" % pid,
            thorough_cmd="./check %s --tier thorough" % pid,
            evidence_file="/verif/evidence/%s.json" % pid,
            replay_cmd_template="./check %s --replay {path}" % pid,
            engine="coq-model+correspondence",
            level_claimed=dict(category=getattr(mod, "LEVEL", "proof"), text=m["text"],
                               design_ref=m.get("design_ref", "DESIGN.md §4 " + pid)),
            level_note=m["note"],
            technique=m["technique"]))
    man = dict(
        version=1,
        setup_cmd="./setup.sh",
        hooks=dict(guard="PYTHON_CFFI_CFFI_VERIF",
                   enable="no source hooks: checks build /repo's working tree into a scratch directory "
                          "(tools/lib/vlib.py Scratch) and control faults/schedules by monkeypatching from the harness",
                   baseline_off_cmd="cd /repo && /venv/bin/python -m pytest -ra -q -p no:cacheprovider --timeout=900 "
                                    "--continue-on-collection-errors",
                   source_commits=[], add_only=True),
        engines=[dict(name="coq-model+correspondence", path="/verif/check",
                      serves_properties=[c["property_id"] for c in checks],
                      kind_free_text="Coq 8.16 models and theorems (coq/), re-checked on every run; models regenerated "
                                     "from source where a translator exists, otherwise tied by running model "
                                     "(vm_compute inside Coq) and implementation on the same inputs")],
        checks=checks,
        notes="See DESIGN.md. known_findings.json lists genuine defects found (open / fixed).",
        not_applicable=na)
    with open(os.path.join(ROOT, "MANIFEST.json"), "w") as f:
        json.dump(man, f, indent=1)
    print("MANIFEST.json: %d checks, %d not claimed" % (len(checks), len(na)))


main()
