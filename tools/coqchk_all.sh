#!/bin/sh
# Re-check every compiled property file (and everything it depends on) with Coq's independent checker and
# print the axioms the whole development relies on.  Usage: tools/coqchk_all.sh [Cxx ...]
cd "$(dirname "$0")/../coq" || exit 1
if [ $# -gt 0 ]; then L=""; for p in "$@"; do L="$L Cffi.$p.Props"; done
else L=$(ls -d C[0-9][0-9] | sed 's/.*/Cffi.&.Props/'); fi
exec timeout 7200 coqchk -silent -o -Q . Cffi $L
