#!/venv/bin/python
"""Merge findings/*.json (written while each property was developed) into the single committed
known_findings.json. Entries already in known_findings.json are kept; same (property, key) in
findings/ overrides. Statuses other than open/fixed (e.g. 'observation') are kept but suppress nothing."""
import glob
import json
import os

ROOT = os.path.dirname(os.path.dirname(os.path.abspath(__file__)))
kf = os.path.join(ROOT, "known_findings.json")
cur = json.load(open(kf))["findings"] if os.path.exists(kf) else []
by = {(e["property"], e["key"]): e for e in cur}
for f in sorted(glob.glob(os.path.join(ROOT, "findings", "*.json"))):
    for e in json.load(open(f))["findings"]:
        by[(e["property"], e["key"])] = e
out = sorted(by.values(), key=lambda e: (e["property"], e["status"], e["key"]))
for e in out:
    if e["status"] == "fixed" and "line" not in e:
        e["line"] = "fixed: property=%s %s %s" % (e["property"], e.get("commit", "?"), e["description"][:160])
json.dump(dict(findings=out), open(kf, "w"), indent=1)
print("known_findings.json: %d entries (%d open, %d fixed)" % (
    len(out), sum(e["status"] == "open" for e in out), sum(e["status"] == "fixed" for e in out)))
for e in out:
    print("  %s %-6s %s" % (e["property"], e["status"], e["key"]))
