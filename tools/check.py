#!/venv/bin/python
"""./check Cxx [--tier quick|thorough] [--replay FILE]   (see DESIGN.md §2.4)"""
import argparse
import importlib
import json
import os
import sys
import traceback

sys.path.insert(0, os.path.dirname(os.path.abspath(__file__)))
from lib import vlib  # noqa: E402


def main():
    ap = argparse.ArgumentParser()
    ap.add_argument("prop")
    ap.add_argument("--tier", default=os.environ.get("VERIF_TIER", "quick"), choices=["quick", "thorough"])
    ap.add_argument("--replay")
    ap.add_argument("--no-coq", action="store_true", help="development only: skip the Coq re-check")
    a = ap.parse_args()
    seed = int(os.environ.get("VERIF_SEED", "0") or 0)
    pid = a.prop.upper()
    mod = importlib.import_module("props." + pid.lower())
    ctx = vlib.Ctx(pid, a.tier, seed)
    level = getattr(mod, "LEVEL", "proof")
    try:
        if a.replay:
            ctx.replay_mode = True
            body = json.load(open(a.replay))
            if body.get("kind") == "obligation":
                a.no_coq = False
            else:
                a.no_coq = True
        # 1. regenerate models from the source, re-check the theorems
        with vlib.CoqLock():      # regeneration and re-check are one critical section on coq/
            if hasattr(mod, "regen"):
                mod.regen(ctx)
            if not a.no_coq:
                ctx.coq = vlib.coq_check_props(pid)
                if not ctx.coq["ok"]:
                    ctx.obligation_broken(ctx.coq.get("failed_file") or pid + "/Props.v", ctx.coq["log"])
                    # a broken obligation: spend the thorough budget looking for a failing input
                    ctx.tier_search = "thorough"
        # 2./3. correspondence and property predicate on the implementation
        if a.replay and body.get("kind") != "obligation":
            if hasattr(mod, "replay"):
                mod.replay(ctx, body)
            else:
                mod.evaluate(ctx, [body["case"]])
        else:
            mod.run(ctx)
    except vlib.BuildError as e:
        print("BUILD-ERROR: /repo's working tree does not build: %s" % e)
        ctx.obligation_broken("build of /repo working tree", str(e))
    except Exception:
        traceback.print_exc()
        print("CHECK-ERROR: internal error in the check for %s" % pid)
        for s in ctx._scratch.values():
            s.close()
        sys.exit(2)
    st = vlib.finish(ctx, level)
    if st == 0:
        print("OK property=%s tier=%s evaluations=%d nontrivial=%d obligations=%d/%d wall=%.1fs" % (
            pid, a.tier, ctx.cov["evaluations"], len(ctx._nontrivial),
            (ctx.coq or {}).get("discharged", 0), (ctx.coq or {}).get("obligations", 0),
            __import__("time").time() - ctx.t0))
    sys.exit(st)


if __name__ == "__main__":
    main()
