"""Shared machinery of the /verif checks.

  * scratch build of cffi from /repo's *current working tree* (never the editable
    install, never the stale .so under /repo/src)
  * Coq build under one lock, Print Assumptions capture, obligation counting
  * evaluation of model definitions inside Coq (`Eval vm_compute`) on harness-written
    cases, with the comparison done inside Coq (only indices of mismatches come back)
  * verdict protocol: violations / model mismatches / broken obligations / known findings
  * evidence writer

Everything random derives from VERIF_SEED through ctx.rng.
"""
import atexit
import fcntl
import hashlib
import json
import os
import random
import re
import shutil
import signal
import subprocess
import sys
import tempfile
import time

ROOT = os.path.dirname(os.path.dirname(os.path.dirname(os.path.abspath(__file__))))
REPO = os.environ.get("VERIF_REPO", "/repo")
COQ = os.path.join(ROOT, "coq")
PY = "/venv/bin/python"
SCRATCH_BASE = "/var/tmp"
COQ_FLAGS = ["-Q", COQ, "Cffi"]

_scratch_dirs = []


def _cleanup(*_a):
    for d in _scratch_dirs:
        shutil.rmtree(d, ignore_errors=True)
    _scratch_dirs[:] = []


atexit.register(_cleanup)


def _on_term(signum, frame):
    _cleanup()
    sys.exit(143)


signal.signal(signal.SIGTERM, _on_term)


def mkscratch(tag="s"):
    d = tempfile.mkdtemp(prefix="verif-%s-" % tag, dir=SCRATCH_BASE)
    _scratch_dirs.append(d)
    return d


# --------------------------------------------------------------------------- build

_PYINC = None


def py_include():
    global _PYINC
    if _PYINC is None:
        _PYINC = subprocess.check_output(
            [PY, "-c", "import sysconfig;print(sysconfig.get_paths()['include']);"
             "print(sysconfig.get_config_var('EXT_SUFFIX'));"
             "print(sysconfig.get_config_var('LIBDIR'))"], text=True).split("\n")
    return _PYINC


class Scratch:
    """A private copy of cffi built from /repo's working tree."""

    def __init__(self, asan=False):
        self.dir = mkscratch("asan" if asan else "impl")
        self.asan = asan
        inc, suffix, libdir = py_include()[:3]
        self.libdir = libdir
        self.pyinc = inc
        shutil.copytree(os.path.join(REPO, "src", "cffi"), os.path.join(self.dir, "cffi"))
        so = os.path.join(self.dir, "_cffi_backend" + suffix)
        cmd = ["gcc", "-w", "-O1", "-g", "-fPIC", "-shared", "-DFFI_BUILDING=1",
               "-DUSE__THREAD", "-DHAVE_SYNC_SYNCHRONIZE", "-I" + inc, "-I/usr/include/ffi",
               os.path.join(REPO, "src", "c", "_cffi_backend.c"), "-lffi", "-o", so]
        if asan:
            cmd[1:1] = ["-fsanitize=address,undefined", "-fno-omit-frame-pointer",
                        "-fno-sanitize-recover=undefined"]
        t0 = time.time()
        p = subprocess.run(cmd, capture_output=True, text=True)
        self.build_s = time.time() - t0
        if p.returncode != 0:
            raise BuildError("backend does not compile:\n" + p.stderr[-3000:])
        self.work = os.path.join(self.dir, "work")
        os.mkdir(self.work)

    def env(self, extra=None, hashseed="0"):
        e = dict(os.environ)
        e["PYTHONPATH"] = self.dir + os.pathsep + os.path.join(ROOT, "tools")
        e["PYTHONHASHSEED"] = hashseed
        e["PYTHONDONTWRITEBYTECODE"] = "1"
        e["VERIF_SCRATCH"] = self.dir
        e["VERIF_WORK"] = self.work
        e["VERIF_ROOT"] = ROOT
        e["VERIF_REPO"] = REPO
        e.pop("PYTHONSTARTUP", None)
        if self.asan:
            lib = subprocess.check_output(["gcc", "-print-file-name=libasan.so"], text=True).strip()
            e["LD_PRELOAD"] = lib
            e["ASAN_OPTIONS"] = "detect_leaks=0:abort_on_error=0:exitcode=77:allocator_may_return_null=1"
            e["UBSAN_OPTIONS"] = "print_stacktrace=1:halt_on_error=1:exitcode=78"
            e["PYTHONMALLOC"] = "malloc"
        if extra:
            e.update(extra)
        return e

    def run_worker(self, script, payload, timeout=600, extra_env=None, hashseed="0", args=()):
        """Run tools/props/<script> under the scratch tree; JSON in on stdin, JSON out on stdout
        (last line starting with 'RESULT '); returns (obj | None, proc)."""
        path = script if os.path.isabs(script) else os.path.join(ROOT, "tools", "props", script)
        p = subprocess.run([PY, path, *args], input=json.dumps(payload), capture_output=True,
                           text=True, env=self.env(extra_env, hashseed), timeout=timeout,
                           cwd=self.work)
        out = None
        for line in p.stdout.splitlines():
            if line.startswith("RESULT "):
                out = json.loads(line[7:])
        return out, p

    def close(self):
        shutil.rmtree(self.dir, ignore_errors=True)
        if self.dir in _scratch_dirs:
            _scratch_dirs.remove(self.dir)


class BuildError(Exception):
    pass


def worker_main(fn):
    """Entry point helper for worker scripts: reads JSON payload, prints RESULT line."""
    payload = json.load(sys.stdin)
    res = fn(payload)
    sys.stdout.write("\nRESULT " + json.dumps(res) + "\n")
    sys.stdout.flush()


# --------------------------------------------------------------------------- coq

class CoqLock:
    """One lock on /verif/.build.lock for everything that writes under coq/ (regenerated Gen.v files,
    make, the forced re-check of Props.v).  Re-entrant within a process: check.py holds it across
    regeneration + re-check so that a concurrent run of another check (or of the same check on another
    tree) cannot swap a Gen.v in between."""
    _depth = 0
    _file = None

    def __enter__(self):
        cls = CoqLock
        if cls._depth == 0:
            cls._file = open(os.path.join(ROOT, ".build.lock"), "w")
            fcntl.flock(cls._file, fcntl.LOCK_EX)
        cls._depth += 1
        return self

    def __exit__(self, *a):
        cls = CoqLock
        cls._depth -= 1
        if cls._depth == 0:
            fcntl.flock(cls._file, fcntl.LOCK_UN)
            cls._file.close()
            cls._file = None


def coq_project_files():
    out = []
    for base, dirs, files in os.walk(COQ):
        dirs.sort()
        for f in sorted(files):
            if f.endswith(".v") and not f.startswith("."):
                out.append(os.path.relpath(os.path.join(base, f), COQ))
    return sorted(out)


def write_coq_project():
    """(Re)generate coq/_CoqProject and coq/Makefile when the file list changed."""
    files = coq_project_files()
    text = "-Q . Cffi\n" + "\n".join(files) + "\n"
    path = os.path.join(COQ, "_CoqProject")
    old = open(path).read() if os.path.exists(path) else None
    if old != text or not os.path.exists(os.path.join(COQ, "Makefile")):
        with open(path, "w") as f:
            f.write(text)
        subprocess.run(["coq_makefile", "-f", "_CoqProject", "-o", "Makefile"], cwd=COQ,
                       check=True, capture_output=True)


def coq_make(targets, jobs=8, timeout=1500):
    """make the given .vo targets (paths relative to coq/). Returns (ok, log)."""
    with CoqLock():
        write_coq_project()
        cmd = ["timeout", str(timeout), "make", "-j%d" % jobs] + list(targets)
        p = subprocess.run(cmd, cwd=COQ, capture_output=True, text=True)
        return p.returncode == 0, p.stdout[-6000:] + p.stderr[-6000:]


def coq_closure(vfile):
    """.v files (relative to coq/) that vfile transitively requires inside the project."""
    seen, todo = [], [vfile]
    while todo:
        f = todo.pop()
        if f in seen:
            continue
        seen.append(f)
        try:
            text = open(os.path.join(COQ, f)).read()
        except OSError:
            continue
        for m in re.finditer(r"(?:From\s+Cffi\s+)?Require\s+(?:Import\s+|Export\s+)?([^.]*(?:\.[A-Za-z_][\w.]*)*)\.\s", text):
            for name in m.group(1).split():
                if name.startswith("Cffi."):
                    todo.append(name[5:].replace(".", "/") + ".v")
        for m in re.finditer(r"From\s+Cffi\s+Require\s+(?:Import\s+|Export\s+)?([\w.\s]+?)\.\s", text):
            for name in m.group(1).split():
                todo.append(name.replace(".", "/") + ".v")
    return sorted(set(f for f in seen if os.path.exists(os.path.join(COQ, f))))


_STMT = re.compile(r"^\s*(?:Local\s+|Global\s+|#\[[^\]]*\]\s*)?(Theorem|Lemma|Corollary|Example|Fact|Remark|Proposition)\s+([\w']+)", re.M)


def strip_comments(text):
    out, depth, i = [], 0, 0
    while i < len(text):
        if text.startswith("(*", i):
            depth += 1
            i += 2
        elif text.startswith("*)", i) and depth:
            depth -= 1
            i += 2
        else:
            if not depth:
                out.append(text[i])
            i += 1
    return "".join(out)


def count_statements(vfile):
    text = strip_comments(open(os.path.join(COQ, vfile)).read())
    return [m.group(2) for m in _STMT.finditer(text)]


FORBIDDEN = re.compile(r"\b(Admitted|admit|Axiom|Axioms|Parameter|Parameters|Conjecture|Conjectures|"
                       r"Unset\s+Guard|bypass_check|Admit\s+Obligations|native_compute|"
                       r"Unset\s+Positivity|Unset\s+Universe)\b")


def forbidden_in(vfile):
    text = strip_comments(open(os.path.join(COQ, vfile)).read())
    hits = [m.group(0) for m in FORBIDDEN.finditer(text)]
    # Variable/Hypothesis outside a section
    depth = 0
    for line in text.splitlines():
        s = line.strip()
        if re.match(r"Section\s+\w+", s):
            depth += 1
        elif re.match(r"End\s+\w+", s) and depth:
            depth -= 1
        elif depth == 0 and re.match(r"(Variable|Variables|Hypothesis|Hypotheses|Context)\b", s):
            hits.append("toplevel " + s.split()[0])
    return hits


def coq_check_props(prop_id, timeout=900):
    """Build the closure of coq/<prop_id>/Props.v and re-check Props.v itself (forced), capturing
    Print Assumptions. Returns dict(ok, log, obligations, discharged, assumptions, files)."""
    props = "%s/Props.v" % prop_id
    res = dict(ok=False, log="", obligations=0, discharged=0, assumptions=[], files=[], failed_file=None,
               checker_cmd="")
    if not os.path.exists(os.path.join(COQ, props)):
        res["log"] = "no " + props
        return res
    files = coq_closure(props)
    res["files"] = files
    stmts = {f: count_statements(f) for f in files}
    res["obligations"] = sum(len(v) for v in stmts.values())
    bad = {f: forbidden_in(f) for f in files}
    bad = {f: v for f, v in bad.items() if v}
    if bad:
        res["log"] = "forbidden constructs: %r" % bad
        return res
    deps = [f[:-2] + ".vo" for f in files if f != props]
    res["checker_cmd"] = "make -C coq %s && coqc -Q coq Cffi coq/%s  (coqc 8.16.1, full .vo build)" % (
        " ".join(deps), props)
    ok, log = coq_make(deps, timeout=timeout) if deps else (True, "")
    if not ok:
        res["log"] = log
        m = re.search(r'File "\./([^"]+)"', log)
        res["failed_file"] = m.group(1) if m else None
        done = 0
        for f in files:
            vo = os.path.join(COQ, f[:-2] + ".vo")
            if f != props and os.path.exists(vo) and os.path.getmtime(vo) >= os.path.getmtime(os.path.join(COQ, f)):
                done += len(stmts[f])
        res["discharged"] = done
        return res
    with CoqLock():
        p = subprocess.run(["timeout", str(timeout), "coqc"] + COQ_FLAGS + [props], cwd=COQ,
                           capture_output=True, text=True)
    res["log"] = (p.stdout + p.stderr)[-8000:]
    if p.returncode != 0:
        res["failed_file"] = props
        res["discharged"] = res["obligations"] - len(stmts[props])
        return res
    res["ok"] = True
    res["discharged"] = res["obligations"]
    res["assumptions"] = parse_assumptions(p.stdout)
    return res


def parse_assumptions(out):
    """Summarise `Print Assumptions` output: list of axiom names, or 'Closed under the global context'."""
    axioms, closed = [], 0
    lines = out.splitlines()
    i = 0
    while i < len(lines):
        if lines[i].startswith("Closed under the global context"):
            closed += 1
        elif lines[i].startswith("Axioms:"):
            i += 1
            while i < len(lines) and (lines[i].startswith(" ") or " : " in lines[i]) and lines[i].strip():
                m = re.match(r"^(\S+)\s*:", lines[i])
                if m and m.group(1) not in axioms:
                    axioms.append(m.group(1))
                i += 1
            continue
        i += 1
    res = []
    if closed:
        res.append("Print Assumptions: %d theorem(s) 'Closed under the global context'" % closed)
    for a in axioms:
        res.append("Print Assumptions axiom: " + a)
    return res


# ---- Coq literals

def cz(n):
    return "(%d)%%Z" % n


def cn(n):
    assert n >= 0
    return "%d%%N" % n


def cnat(n):
    assert 0 <= n < 5000
    return "%d%%nat" % n


def cbool(b):
    return "true" if b else "false"


def clist(xs):
    return "[" + "; ".join(xs) + "]"


def copt(x):
    return "None" if x is None else "(Some %s)" % x


def cpair(*xs):
    return "(" + ", ".join(xs) + ")"


def cbytes(bs):
    """bytes / list of ints -> list N literal"""
    return "[" + ";".join("%d" % b for b in bs) + "]%N"


def cstr(s):
    """Python str -> list N of code points"""
    return cbytes([ord(c) for c in s])


# coqc runs that parse large generated literals get the hard stack limit (a ~1 MB list literal overflows
# coqc's default 8 MB stack); done in a shell wrapper because the shards are started from threads
_BIG_STACK = ["sh", "-c", 'ulimit -s "$(ulimit -Hs)" 2>/dev/null; exec "$@"', "sh"]


def coq_eval(imports, body, timeout=600, workdir=None, name="cases"):
    """Compile a throw-away .v file (outside /verif) and return (ok, stdout+stderr)."""
    d = workdir or mkscratch("coq")
    path = os.path.join(d, name + ".v")
    with open(path, "w") as f:
        f.write("From Coq Require Import ZArith NArith List Bool String.\nImport ListNotations.\n")
        for imp in imports:
            f.write("From Cffi Require Import %s.\n" % imp)
        f.write(body)
    p = subprocess.run(_BIG_STACK + ["timeout", str(timeout), "coqc"] + COQ_FLAGS + ["-Q", d, "Scratch", path],
                       capture_output=True, text=True, cwd=d)
    if workdir is None:
        shutil.rmtree(d, ignore_errors=True)
        if d in _scratch_dirs:
            _scratch_dirs.remove(d)
    return p.returncode == 0, p.stdout + p.stderr


def coq_mismatches(imports, fexpr, eqb, cases, shard=300, timeout=600, jobs=8, prelude=""):
    """cases: list of (input_literal, expected_literal). Evaluates, inside Coq,
         filter (fun i => negb (eqb (f input_i) expected_i))
       and returns (list of mismatching indices, dict index -> model output text, error|None).
       Shards run in parallel."""
    if not cases:
        return [], {}, None
    d = mkscratch("coq")
    shards = [cases[i:i + shard] for i in range(0, len(cases), shard)]
    procs = []
    header = ("From Coq Require Import ZArith NArith List Bool String.\nImport ListNotations.\n"
              + "".join("From Cffi Require Import %s.\n" % i for i in imports)
              + "From Cffi Require Import Base.Corr.\n" + prelude + "\n")
    bad, outs, err = [], {}, None
    try:
        running = []
        for k, sh in enumerate(shards):
            path = os.path.join(d, "s%d.v" % k)
            with open(path, "w") as f:
                f.write(header)
                f.write("Definition cases_%d := [\n%s\n].\n" % (
                    k, ";\n".join("(%s, %s)" % c for c in sh)))
                f.write("Eval vm_compute in mismatches (%s) (%s) cases_%d.\n" % (eqb, fexpr, k))
            while len(running) >= jobs:
                _reap(running, bad, shard)
            running.append((k, subprocess.Popen(
                _BIG_STACK + ["timeout", str(timeout), "coqc"] + COQ_FLAGS + ["-Q", d, "Scratch", path],
                stdout=subprocess.PIPE, stderr=subprocess.STDOUT, text=True, cwd=d)))
        while running:
            e = _reap(running, bad, shard)
            err = err or e
        # second pass: model outputs at mismatches (for the replay files)
        if bad and not err:
            sel = bad[:20]
            body = header + "".join(
                "Eval vm_compute in (%s) (%s).\n" % (fexpr, cases[i][0]) for i in sel)
            ok, out = coq_eval([], body, timeout=timeout, workdir=d, name="detail")
            chunks = re.split(r"^\s*= ", out, flags=re.M)[1:]
            for i, c in zip(sel, chunks):
                outs[i] = " ".join(c.split())[:2000]
    finally:
        shutil.rmtree(d, ignore_errors=True)
        if d in _scratch_dirs:
            _scratch_dirs.remove(d)
    return sorted(bad), outs, err


def _reap(running, bad, shard):
    k, p = running.pop(0)
    out, _ = p.communicate()
    if p.returncode != 0:
        return "coqc failed on shard %d: %s" % (k, out[-1500:])
    m = re.search(r"=\s*\[(.*?)\]\s*:\s*list N", out, re.S)
    if not m:
        return "cannot parse coqc output of shard %d: %s" % (k, out[-1500:])
    for tok in m.group(1).replace("%N", "").split(";"):
        tok = tok.strip()
        if tok:
            bad.append(k * shard + int(tok))
    return None


# --------------------------------------------------------------------------- verdicts

def load_known_findings():
    """known_findings.json (committed, read-only at run time); while a property is being developed
    its entries may live in findings/<id>.json and are merged into known_findings.json before commit."""
    out = []
    path = os.path.join(ROOT, "known_findings.json")
    if os.path.exists(path):
        out += json.load(open(path))["findings"]
    d = os.path.join(ROOT, "findings")
    if os.path.isdir(d):
        for f in sorted(os.listdir(d)):
            if f.endswith(".json"):
                try:
                    entries = json.load(open(os.path.join(d, f)))["findings"]
                except (ValueError, KeyError) as ex:     # a malformed file suppresses nothing
                    sys.stderr.write("warning: ignoring malformed %s: %s\n" % (f, ex))
                    continue
                for e in entries:
                    if not any(o["property"] == e["property"] and o["key"] == e["key"] for o in out):
                        out.append(e)
    return out


class Ctx:
    def __init__(self, prop_id, tier, seed):
        self.id = prop_id
        self.tier = tier
        self.seed = seed
        self.rng = random.Random("%s-%d" % (prop_id, seed))
        self.t0 = time.time()
        self.violations = []        # (case, what, key)
        self.mismatches = []        # (case, what)  model != impl
        self.broken = []            # names of obligations / correspondences that no longer check
        self.cov = dict(evaluations=0, distinct_nontrivial=0, rule="", samples=[])
        self.extra = {}
        self.assumptions = []
        self._nontrivial = set()
        self._scratch = {}
        self.known = [k for k in load_known_findings() if k["property"] == prop_id]
        self.replay_mode = False
        self.coq = None
        self.tier_search = tier      # becomes "thorough" when a proof obligation is broken
        self.extra["translator"] = {}

    def translator(self, genfile, status):
        """record the outcome of regenerating a Gen file: regenerated | unchanged | fallback:<why>"""
        self.extra["translator"][genfile] = status

    # -- builds
    def scratch(self, asan=False):
        if asan not in self._scratch:
            self._scratch[asan] = Scratch(asan=asan)
        return self._scratch[asan]

    @property
    def thorough(self):
        return self.tier == "thorough"

    def n(self, quick, thorough):
        return thorough if self.thorough else quick

    # -- accounting
    def count(self, n=1):
        self.cov["evaluations"] += n

    def nontrivial(self, key):
        """record a distinct non-trivial case by canonical key"""
        if not isinstance(key, str):
            key = json.dumps(key, sort_keys=True, default=str)
        self._nontrivial.add(hashlib.sha1(key.encode()).hexdigest())

    def sample(self, case, limit=6):
        if len(self.cov["samples"]) < limit:
            self.cov["samples"].append(case)

    def hist(self, name, key):
        h = self.extra.setdefault("distribution", {}).setdefault(name, {})
        key = str(key)
        h[key] = h.get(key, 0) + 1

    # -- verdicts
    def violation(self, case, what, key=None):
        """the property predicate fails on the real implementation for this case"""
        self.violations.append((case, what, key))

    def mismatch(self, case, what, corr="model-vs-implementation"):
        """model and implementation disagree on this case (predicate not known to fail)"""
        self.mismatches.append((case, what, corr))

    def obligation_broken(self, name, log=""):
        self.broken.append((name, log))


def write_replay(prop_id, kind, case, what, extra=None):
    os.makedirs(os.path.join(ROOT, "replay"), exist_ok=True)
    body = dict(property=prop_id, kind=kind, case=case, what=what)
    if extra:
        body.update(extra)
    h = hashlib.sha1(json.dumps(body, sort_keys=True, default=str).encode()).hexdigest()[:10]
    path = os.path.join(ROOT, "replay", "%s-%s.json" % (prop_id, h))
    with open(path, "w") as f:
        json.dump(body, f, indent=1, default=str)
    return path


def finish(ctx, level="proof"):
    """Print verdict lines, write evidence, return exit status."""
    status = 0
    seen_known = set()
    reported = 0
    for case, what, key in ctx.violations:
        k = next((k for k in ctx.known if k.get("status") == "open" and k["key"] == key), None) if key else None
        if k is not None:
            if key not in seen_known:
                seen_known.add(key)
                print("KNOWN-FINDING: property=%s %s" % (ctx.id, k["description"]))
            continue
        status = 1
        if reported < 5:
            path = write_replay(ctx.id, "violation", case, what)
            print("VIOLATION property=%s replay=%s" % (ctx.id, path))
            print("  " + str(what)[:600])
        reported += 1
    if status == 0:
        # no concrete failing input on the implementation; anything that no longer checks?
        for name, log in ctx.broken:
            path = write_replay(ctx.id, "obligation", None, "proof obligation no longer checks: " + name,
                                dict(theorem_or_correspondence=name, log=log[-4000:]))
            print("VIOLATION property=%s replay=%s no-failing-input-found" % (ctx.id, path))
            status = 1
        byc = {}
        for case, what, corr in ctx.mismatches:
            byc.setdefault(corr, []).append((case, what))
        for corr, lst in byc.items():
            case, what = lst[0]
            path = write_replay(ctx.id, "correspondence", case, what,
                                dict(theorem_or_correspondence=corr, disagreements=len(lst)))
            print("VIOLATION property=%s replay=%s no-failing-input-found" % (ctx.id, path))
            print("  correspondence %s broken: %s" % (corr, str(what)[:600]))
            status = 1
    if not ctx.replay_mode:
        write_evidence(ctx, level, status)
    for s in ctx._scratch.values():
        s.close()
    return status


def write_evidence(ctx, level, status):
    cov = dict(ctx.cov)
    cov["distinct_nontrivial"] = len(ctx._nontrivial)
    coq = ctx.coq or {}
    cov["obligations"] = coq.get("obligations", 0)
    cov["discharged"] = coq.get("discharged", 0)
    cov["checker_cmd"] = coq.get("checker_cmd", "")
    tb = ["Coq 8.16.1 kernel (coqc; vm_compute used for model evaluation; native_compute not used)"]
    tb += coq.get("assumptions", [])
    tb += ctx.assumptions
    cov["trusted_base"] = tb
    cov["coq_files"] = coq.get("files", [])
    cov.update(ctx.extra)
    ev = dict(property_id=ctx.id, tier=ctx.tier, seed=ctx.seed, level=level, coverage=cov,
              assumptions=ctx.assumptions, wall_s=round(time.time() - ctx.t0, 2),
              violations=len([v for v in ctx.violations]) + len(ctx.broken) + len(ctx.mismatches)
              if status else 0,
              known_findings_seen=sorted({k for _, _, k in ctx.violations if k}))
    os.makedirs(os.path.join(ROOT, "evidence"), exist_ok=True)
    with open(os.path.join(ROOT, "evidence", ctx.id + ".json"), "w") as f:
        json.dump(ev, f, indent=1, default=str)
