"""Fail-closed Python-AST -> Gallina translator core (tie A, DESIGN.md §2.2).

Only a small expression/statement subset is accepted; anything else raises Untranslatable,
in which case the caller keeps the committed snapshot of the Gen file and the run is tied by
correspondence only (evidence records translator=fallback).

Python int -> Z, bool -> bool, str/bytes constants -> list N (via `strlit`), list -> list.
Per-function drivers (tools/props/cNN.py `regen`) locate the function in the source with
`find_function`, check its shape, and use `Expr` to translate the holes.
"""
import ast
import os


class Untranslatable(Exception):
    pass


def parse_source(path):
    with open(path) as f:
        return ast.parse(f.read(), filename=path)


def find_function(tree, name, cls=None):
    """Return the ast.FunctionDef `name` (inside class `cls` if given); fail closed."""
    scope = tree.body
    if cls is not None:
        cs = [n for n in tree.body if isinstance(n, ast.ClassDef) and n.name == cls]
        if len(cs) != 1:
            raise Untranslatable("class %s not found exactly once" % cls)
        scope = cs[0].body
    fs = [n for n in scope if isinstance(n, ast.FunctionDef) and n.name == name]
    if len(fs) != 1:
        raise Untranslatable("function %s not found exactly once" % name)
    return fs[0]


def find_assign(tree, name, cls=None):
    scope = tree.body
    if cls is not None:
        cs = [n for n in tree.body if isinstance(n, ast.ClassDef) and n.name == cls]
        if len(cs) != 1:
            raise Untranslatable("class %s not found exactly once" % cls)
        scope = cs[0].body
    hits = [n for n in scope if isinstance(n, ast.Assign) and len(n.targets) == 1
            and isinstance(n.targets[0], ast.Name) and n.targets[0].id == name]
    if len(hits) != 1:
        raise Untranslatable("assignment %s not found exactly once" % name)
    return hits[0].value


def strlit(s):
    if isinstance(s, str):
        s = [ord(c) for c in s]
    return "[" + ";".join("%d" % b for b in s) + "]%N" if s else "(@nil N)"


BINOPS = {ast.Add: "Z.add", ast.Sub: "Z.sub", ast.Mult: "Z.mul", ast.FloorDiv: "Z.div",
          ast.Mod: "Z.modulo", ast.LShift: "Z.shiftl", ast.RShift: "Z.shiftr",
          ast.BitAnd: "Z.land", ast.BitOr: "Z.lor", ast.BitXor: "Z.lxor", ast.Pow: "Z.pow"}
CMPOPS = {ast.Lt: "Z.ltb", ast.LtE: "Z.leb", ast.Eq: "Z.eqb", ast.Gt: "Z.gtb", ast.GtE: "Z.geb"}


class Expr:
    """Integer/boolean expression translator. `names` maps Python names (or dotted
    attribute paths like 'self.x') to Gallina terms; `calls` maps callee names to a function
    (translator, ast.Call) -> Gallina text."""

    def __init__(self, names=None, calls=None):
        self.names = dict(names or {})
        self.calls = dict(calls or {})

    def dotted(self, node):
        if isinstance(node, ast.Name):
            return node.id
        if isinstance(node, ast.Attribute):
            return self.dotted(node.value) + "." + node.attr
        raise Untranslatable("not a dotted name: " + ast.dump(node))

    def z(self, node):
        """translate as a Z-valued term"""
        if isinstance(node, ast.Constant):
            if isinstance(node.value, bool):
                raise Untranslatable("bool where int expected")
            if isinstance(node.value, int):
                return "(%d)%%Z" % node.value
            raise Untranslatable("constant %r" % (node.value,))
        if isinstance(node, (ast.Name, ast.Attribute)):
            d = self.dotted(node)
            if d in self.names:
                return self.names[d]
            raise Untranslatable("unknown name " + d)
        if isinstance(node, ast.UnaryOp) and isinstance(node.op, ast.USub):
            return "(Z.opp %s)" % self.z(node.operand)
        if isinstance(node, ast.UnaryOp) and isinstance(node.op, ast.Invert):
            return "(Z.lnot %s)" % self.z(node.operand)
        if isinstance(node, ast.UnaryOp) and isinstance(node.op, ast.UAdd):
            return self.z(node.operand)
        if isinstance(node, ast.BinOp) and type(node.op) in BINOPS:
            return "(%s %s %s)" % (BINOPS[type(node.op)], self.z(node.left), self.z(node.right))
        if isinstance(node, ast.IfExp):
            return "(if %s then %s else %s)" % (self.b(node.test), self.z(node.body), self.z(node.orelse))
        if isinstance(node, ast.Call):
            return self.call(node)
        raise Untranslatable("expression " + ast.dump(node)[:200])

    def b(self, node):
        """translate as a bool-valued term"""
        if isinstance(node, ast.Constant) and isinstance(node.value, bool):
            return "true" if node.value else "false"
        if isinstance(node, ast.BoolOp):
            op = "andb" if isinstance(node.op, ast.And) else "orb"
            out = self.b(node.values[0])
            for v in node.values[1:]:
                out = "(%s %s %s)" % (op, out, self.b(v))
            return out
        if isinstance(node, ast.UnaryOp) and isinstance(node.op, ast.Not):
            return "(negb %s)" % self.b(node.operand)
        if isinstance(node, ast.Compare):
            parts, left = [], node.left
            for op, right in zip(node.ops, node.comparators):
                if type(op) in CMPOPS:
                    parts.append("(%s %s %s)" % (CMPOPS[type(op)], self.z(left), self.z(right)))
                elif isinstance(op, ast.NotEq):
                    parts.append("(negb (Z.eqb %s %s))" % (self.z(left), self.z(right)))
                else:
                    raise Untranslatable("comparison " + type(op).__name__)
                left = right
            out = parts[0]
            for p in parts[1:]:
                out = "(andb %s %s)" % (out, p)
            return out
        if isinstance(node, (ast.Name, ast.Attribute)):
            d = self.dotted(node)
            if d in self.names:
                return self.names[d]
            raise Untranslatable("unknown name " + d)
        if isinstance(node, ast.Call):
            return self.call(node)
        raise Untranslatable("boolean expression " + ast.dump(node)[:200])

    def call(self, node):
        d = self.dotted(node.func)
        if d in self.calls:
            return self.calls[d](self, node)
        raise Untranslatable("call to " + d)


def write_if_changed(path, text):
    """Write a Gen file only when its content changed. Returns 'unchanged' | 'regenerated'."""
    old = open(path).read() if os.path.exists(path) else None
    if old == text:
        return "unchanged"
    with open(path, "w") as f:
        f.write(text)
    return "regenerated"


def shape(node):
    """A canonical dump used by drivers to compare a statement's shape with a recorded one."""
    return ast.dump(node, annotate_fields=False, include_attributes=False)
