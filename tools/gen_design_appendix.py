#!/venv/bin/python
"""Rewrite the generated appendix of DESIGN.md (per-property as-built summary) from MANIFEST.json,
coq/Cxx/Props.v, evidence/Cxx.json, known_findings.json and seeded/*/meta.json."""
import json
import os
import re
import sys

ROOT = os.path.dirname(os.path.dirname(os.path.abspath(__file__)))
sys.path.insert(0, os.path.join(ROOT, "tools"))
from lib import vlib  # noqa: E402

B = "<!-- BEGIN GENERATED: per-property as built (tools/gen_design_appendix.py) -->"
E = "<!-- END GENERATED -->"


def main():
    man = json.load(open(os.path.join(ROOT, "MANIFEST.json")))
    props = {json.loads(l)["id"]: json.loads(l) for l in open(os.path.join(ROOT, "properties.jsonl"))}
    kf = json.load(open(os.path.join(ROOT, "known_findings.json")))["findings"]
    out = [B, "", "## Appendix G — per-property summary as built (generated)", "",
           "One entry per claimed property: the deciding method, what is proved (theorem names are those of "
           "`coq/Cxx/Props.v`), the tie to the code, the trusted base, findings and seeded changes. "
           "Counts come from the last committed evidence files.", ""]
    for c in man["checks"]:
        pid = c["property_id"]
        out.append("### %s %s" % (pid, props[pid]["title"]))
        out.append("")
        out.append("* **Method:** %s" % c["technique"])
        out.append("* **Claim:** %s" % c["level_claimed"]["text"])
        out.append("* **Trusted base / assumptions:** %s" % c["level_note"])
        pv = os.path.join(vlib.COQ, pid, "Props.v")
        if os.path.exists(pv):
            text = vlib.strip_comments(open(pv).read())
            thms = re.findall(r"^\s*Theorem\s+([\w']+)", text, re.M)
            out.append("* **Theorems in `coq/%s/Props.v`:** %s" % (pid, ", ".join("`%s`" % t for t in thms)))
            files = vlib.coq_closure("%s/Props.v" % pid)
            gens = [f for f in files if f.endswith("/Gen.v")]
            if gens:
                out.append("* **Regenerated from source on every run:** %s" % ", ".join("`coq/%s`" % g for g in gens))
        ev = os.path.join(ROOT, "evidence", pid + ".json")
        if os.path.exists(ev):
            e = json.load(open(ev))
            cov = e["coverage"]
            ax = [t for t in cov.get("trusted_base", []) if t.startswith("Print Assumptions")]
            out.append("* **Last quick run:** %s/%s obligations discharged; %s correspondence evaluations, %s distinct "
                       "non-trivial; %s" % (cov.get("discharged"), cov.get("obligations"), cov.get("evaluations"),
                                            cov.get("distinct_nontrivial"), "; ".join(ax) or "no Print Assumptions output"))
        mine = [k for k in kf if k["property"] == pid]
        if mine:
            out.append("* **Findings:** " + "; ".join(
                "%s (%s%s)" % (k["key"], k["status"], " " + k["commit"] if k.get("commit") else "") for k in mine))
        sm = os.path.join(ROOT, "seeded", pid, "meta.json")
        if os.path.exists(sm):
            m = json.load(open(sm))
            out.append("* **Seeded change:** %s" % str(m.get("summary", ""))[:400])
        out.append("")
    # seeded changes
    res = json.load(open(os.path.join(ROOT, "seeded", "RESULTS.json")))
    out += ["## Appendix H — seeded property-breaking changes and what reports them (generated)", "",
            "Each change was written by a fresh sub-agent that saw only the property text and its own scratch worktree "
            "(second-round changes, suffix `-b`, were additionally told which function the first change touched), "
            "confirmed by the coordinator (demo exits 1 with the patch and 0 without; the existing suite is unchanged), "
            "and run against the checks with `tools/mut_test.sh <seed> <check>`.", "",
            "| seed | change | first result | now |", "|---|---|---|---|"]
    for sid in sorted(k for k in res if not k.startswith("_")):
        mp = os.path.join(ROOT, "seeded", sid, "meta.json")
        summ = ""
        if os.path.exists(mp):
            summ = " ".join(str(json.load(open(mp)).get("summary", "")).split())[:260].replace("|", "/")
        out.append("| %s | %s | %s | %s |" % (sid, summ, res[sid]["first"], res[sid]["now"]))
    out.append("")
    out.append(E)
    p = os.path.join(ROOT, "DESIGN.md")
    s = open(p).read()
    block = "\n".join(out)
    if B in s:
        s = s[:s.index(B)] + block + s[s.index(E) + len(E):]
    else:
        s = s.rstrip("\n") + "\n\n\n" + block + "\n"
    open(p, "w").write(s)
    print("DESIGN.md appendix regenerated: %d properties" % len(man["checks"]))


main()
