#!/venv/bin/python
"""Run every claimed check (quick by default) and validate MANIFEST/evidence against the schemas.
usage: tools/run_all.py [--tier quick|thorough] [-j N] [ids...]"""
import argparse
import json
import os
import subprocess
import sys
import time
from concurrent.futures import ThreadPoolExecutor

ROOT = os.path.dirname(os.path.dirname(os.path.abspath(__file__)))


def one(pid, tier):
    t0 = time.time()
    ev = os.path.join(ROOT, "evidence", pid + ".json")
    if os.path.exists(ev):
        os.remove(ev)
    p = subprocess.run(["./check", pid, "--tier", tier], cwd=ROOT, capture_output=True, text=True)
    return pid, p.returncode, time.time() - t0, p.stdout[-1500:] + p.stderr[-800:]


def main():
    ap = argparse.ArgumentParser()
    ap.add_argument("--tier", default="quick")
    ap.add_argument("-j", type=int, default=4)
    ap.add_argument("ids", nargs="*")
    a = ap.parse_args()
    man = json.load(open(os.path.join(ROOT, "MANIFEST.json")))
    ids = a.ids or [c["property_id"] for c in man["checks"]]
    bad = 0
    with ThreadPoolExecutor(a.j) as ex:
        for pid, rc, dt, out in ex.map(lambda i: one(i, a.tier), ids):
            lines = [l for l in out.splitlines() if l.startswith(("OK ", "VIOLATION", "KNOWN-FINDING", "CHECK-ERROR", "BUILD-ERROR"))]
            print("%s rc=%d %.0fs  %s" % (pid, rc, dt, " | ".join(lines)[:300]))
            if rc != 0:
                bad += 1
                print(out)
    # schema validation (python3-vt has jsonschema)
    v = subprocess.run(["python3-vt", "-c", """
import json, jsonschema, sys, os
man = json.load(open('MANIFEST.json'))
jsonschema.validate(man, json.load(open('/root/.vp/MANIFEST.schema.json')))
sch = json.load(open('/root/.vp/EVIDENCE.schema.json'))
bad = 0
for c in man['checks']:
    p = c['evidence_file']
    if not os.path.exists(p):
        print('MISSING evidence', p); bad += 1; continue
    try:
        e = json.load(open(p)); jsonschema.validate(e, sch)
        cov = e['coverage']
        if e['level'] == 'proof' and cov.get('obligations') != cov.get('discharged'):
            print('UNDISCHARGED', p, cov.get('obligations'), cov.get('discharged')); bad += 1
    except Exception as ex:
        print('INVALID evidence', p, str(ex)[:300]); bad += 1
print('schemas ok' if not bad else 'schema problems: %d' % bad)
sys.exit(1 if bad else 0)
"""], cwd=ROOT, capture_output=True, text=True)
    print(v.stdout + v.stderr[-500:])
    sys.exit(1 if bad or v.returncode else 0)


main()
